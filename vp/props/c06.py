"""C06 — every backprop routine returns the true gradient of its forward routine.

One harness, one table.  Every row of the table names a *companion* routine (the thing under test), the forward
it belongs to and a generator of argument classes.  Deciding tests:

  linear forward A      <ybar, A x> == <A^H ybar, x>  as complex numbers, for random x, ybar (x / ybar real where the
                        routine is real-only), |difference| <= 1e-9 * |x| |ybar| |A|   (|A| estimated from the probes).
                        A case is a *plan* of forward and backprop calls on the same objects (same argument arrays,
                        same DM / executor / Wavefront instance); every backprop call is paired with every forward
                        call of the same map, each side judged with the value its argument had when the call was made
  non-linear forward f  c(x) = Re<gbar, f(x)>; the derivative of t -> c(x + t d) measured by central differences at
                        h, h/2, h/4 + two Richardson steps must equal Re<backprop(gbar), d> within 1e-6 * |gbar| |J d|;
                        points where the two O(h^4) extrapolants disagree by more than 1e-7 are dropped and counted
  activations           backprop(x) == d forward / dx elementwise (the contract the repo's own tests use), x not mutated;
                        reference = Richardson differences where well conditioned, else the complex-step derivative after
                        it has been validated against Richardson on the well-conditioned elements of the same case
  costs                 returned gradient vs directional derivative of the returned cost
  histories             the same laws on an object that has already been used: other flags (DM wfe on/off), other
                        shapes, other temperatures, copies made after use, caches filled by the backprop before the
                        forward, caches cleared in between; plus the result of a used object against a brand-new one
  configurations        precision 32 / mixed dtypes: linear rows by the adjoint law itself at single-precision
                        tolerance, non-linear rows by agreement of the narrow result with the double-precision result
                        of the same routine on the same numbers (which the finite-difference oracle has just
                        validated); then the double-precision call is repeated on the same objects at full tolerance
  layouts               the same numbers as Fortran-ordered, strided and negatively strided arrays

  magnitudes            (class G) forward input / upstream gradient / model data at 1e-12 ... 1e12: same laws, relative tolerances
  extreme arguments     (class H) activations at |a(x-x0)| = 30 ... 800 against the overflow-free closed form, confirmed per element
                        by a numerical derivative of the node's own forward; soft-max-type nodes at logits +-30 ... +-800

The violation key is  C06/<companion routine>/<argument class>  (plus /raises:<Type> when the routine throws on an
in-domain input, /shape when the gradient does not have the shape of the forward input, /repeat-call, /after-...
for failures that need a history) or  C06/<companion routine>/dtypes:<precision>/<field dtype>/<gradient dtype>  and
C06/<companion routine>/layout:<layout>  for failures that only show in that configuration;  .../scale:<regime>  and
.../special:<value class>  for failures that need a magnitude or an extreme argument.
"""
import copy
import math
import warnings

import numpy as np

from ..core import shape_class
from ..refmodels.diffops import (inner, norm, richardson_directional, richardson_elementwise,
                                 complex_step_elementwise, cast, f32_exact, relayout, hutchinson_norm)
from ..refmodels import activations as ACT
from ..util import precision

RULE = ('table of (forward, companion, argument generator); per row the argument classes (shape kind sq/nonsq/line/big/sliver x '
        'parity, scalar/per-axis Q, zero/non-zero shift, equal/unequal pupil-focal-mask shapes, real/complex masks and '
        'Lyot stops, DM geometry features, node parameters, masked/unmasked costs) are enumerated smallest first, '
        'then filled with random members; every class is crossed with a call-plan variant (plain + repeat with the same '
        'argument objects, backprop before forward, memory layouts, precision/dtype schedule ending with a full-tolerance '
        'double-precision call, object histories); arrays are regenerated from the per-case sub-seed in the descriptor. '
        'A case is non-trivial when input and upstream gradient have >= 2 non-zero samples and the forward response '
        '(A x, or J d) is not identically zero; distinct = distinct descriptor.  Argument forms (hardening pass 2): for every linear '
        'companion each argument (Q, sample counts, shift incl. single-axis and zero with output_dx != 1, every physical scalar, masks '
        'and Lyot stops in 8 dtypes, mode cubes in 8 containers, DM flags and constructor arguments, call syntax, omitted defaults '
        'after a hostile call) is put into every accepted form in turn, the same argument objects serving a backprop, a forward and '
        'a second backprop call; non-linear rows, costs and activations get the forms as twins of the finite-difference-validated '
        'canonical gradient; foreign-traffic prelude before mdft / fixed-sampling / mask-and-back / DM adjoints.  Magnitudes and special '
        'values (hardening pass 3): every linear row also runs the call-plan variant `scales` (forward input / upstream gradient at '
        '1e-12, 1e-9, 1e9, 1e12 and mixed, each backprop paired with the forward at the same magnitude and at magnitude one, then the '
        'magnitude-one call again); every vector-Jacobian row repeats its validated call with the upstream gradient times 1e-12 / 1e-9 / '
        '1e12; mean_square_error and bias_and_gain_invariant_error get model and data at 1e-12 ... 1e12 (and mixed for the gain-'
        'invariant cost); the four activations are driven at pre-activations |a(x-x0)| = 30 ... 800 of both signs (EXTREME_Z: around '
        'the 1+e^z==e^z, float32 / float64 exp overflow and underflow thresholds) with slopes of either sign and |a| <> 1, in double and '
        'single precision, extreme and moderate elements in one array; soft-max-type nodes get logits offset by +-30 ... +-800 per '
        'variable with levels 750 below their competitors')
ASSUMPTIONS = [
    'inner product <a,b> = sum conj(a) b, accumulated in double precision; gradient convention fixed by the library itself '
    '(intensity_backprop returns 2*Ibar*E, i.e. dc = Re<Gbar, d>), so the backprop of a complex-linear map is its adjoint A^H',
    'the forward routine of the working tree is the definition of the map (C06 does not ask whether the forward is '
    'physically right, only that the companion differentiates it)',
    'three-level Richardson extrapolation of central differences is accurate to 1e-7 relative where its own '
    'h/2-vs-h/4 disagreement is below 1e-7 (measured per case; other cases are excluded and counted)',
    'activation forwards are evaluated at x + 1e-30i for the complex-step derivative; that reference is used only when it '
    'agrees with the Richardson reference on every well-conditioned element of the same case',
    'finite differences are trusted only where the response |J d| exceeds 1e-5 |f(x)| (saturated soft-max and the like are '
    'excluded and counted)',
    'GumbelSoftmax is differentiated at fixed noise: the same seeded Generator is injected before every forward call',
    'numpy.vdot / matmul round-off is far below 1e-9 relative for the sizes used (<= 320x320, 3x20000); observed <= 3e-15',
    'every call is judged with the value its arguments had when it was made (snapshots): a routine that scales its '
    'upstream-gradient argument in place (DM.render_backprop does, its docstring calls the argument a work-in-progress '
    'array) still returns the true gradient for the value it was handed, also on a later call with the same object, so '
    'that is counted as an event, not a violation; in-place changes of *parameters* (masks, modes, data, fields) are '
    'caught because later calls of the same plan then stop satisfying the law',
    'single-precision slices: the law / the agreement with the double-precision twin is demanded to 1e-3 relative (adjoint law, measured round-off <= 7e-7) / 2e-2 relative '
    '(gradient against its double-precision twin, measured round-off <= 1.3e-5) only; a narrow-configuration forward that differs from the double-precision forward by more '
    'than 1e-4 relative is excluded and counted (the twin would then be the gradient of another function)',
    'a used object and a brand-new one (same constructor arguments, same call) must agree to round-off because the '
    'routines are deterministic; 1e-11 relative is allowed for re-association',
    'argument forms (FORMS_NOTE): a form is demanded only when the current tree accepts it as the same input (forms that raise or mean '
    'something else are listed there); forms that carry float32 numbers use values exactly representable in float32 and the single-'
    'precision tolerance; a DM backprop belongs to the render that preceded it (forward first for DM forms); for narrow-integer data '
    'the cost a routine returns may differ from the float-data cost (numpy integer arithmetic): the form twin is then skipped and '
    'counted and the gradient is judged against the cost actually returned',
    'magnitudes: all scales of the adjoint law, of the finite-difference oracle and of the twin comparisons are relative, so the same '
    'tolerances apply at every magnitude; 1e-12 ... 1e12 keeps every product inside the double-precision range (squares to 1e+-24)',
    'extreme pre-activations: reference = overflow-free closed form of the four activations (vp.refmodels.activations), used for an '
    'element only where the forward the node computes is finite and equals the closed-form value (1e-9; 1e-4 in single precision) and '
    'a numerical derivative of the node\'s own forward (complex step where finite, else settled Richardson differences) agrees with '
    'the closed-form derivative to 1e-6 |a|; tolerance 1e-6 of the largest slope |a| the node can have, which is what the library\'s '
    'own round-off (1 - fx**2 at fx = 1 - 1ulp, ~1e-16 |a|) needs; elements whose forward overflows (Softplus above 709.78, above '
    '88.7 in single precision) are excluded and counted',
]
REQUIRED = []          # filled from the table below
UNREACHABLE = ['focal-plane masks / Lyot stops given as Wavefront objects: the forward routine itself raises TypeError '
               'on them, so there is no forward map to differentiate',
               "method='czt' backprops: documented ValueError('not yet implemented')",
               'DM with per-axis actuator counts (Nact=(4, 3)): DM.render itself raises ValueError (the command array is (Nx, Ny), '
               'the lattice slice (Ny, Nx)), so there is no forward map; per-axis separation, non-square influence functions and '
               'per-axis upsample are exercised',
               'upstream gradients that alias a forward output modified in place (Softmax.forward returns a view of the state its '
               'backprop reads): whether a routine returns a view or a copy is not promised, so this is not driven']

RT_LIN = 1e-9
RT_DIR = 1e-6
SETTLE = 1e-7
RT_F32 = 1e-3      # single-precision adjoint law (measured round-off <= 7e-7)
RT_F32_NL = 2e-2   # single-precision gradient vs its double-precision twin (measured round-off <= 1.3e-5)
RT_SAME = 1e-11     # used object vs brand-new object, repeat call vs first call (deterministic routines)
FWD_F32 = 1e-4      # a narrow-configuration forward further than this from the double one is another function
FLOOR = 1e-5        # smallest |J d| / |f(x)| at which a finite-difference reference is trusted
COST_SCALES = (('tiny', 1e-12, 1e-12), ('small', 1e-9, 1e-9), ('large', 1e9, 1e9), ('huge', 1e12, 1e12))
UPSTREAM_SCALES = (('upstream-tiny', 1e-12), ('upstream-small', 1e-9), ('upstream-huge', 1e12))


# ============================================================================================ small helpers
def crandn(rng, shape):
    return rng.standard_normal(shape) + 1j * rng.standard_normal(shape)


def draw(rng, shape, kind):
    return crandn(rng, shape) if kind == 'c' else rng.standard_normal(shape)


def nz(v):
    return any(float(s) != 0 for s in v)


def same(a, b):
    a, b = np.asarray(a), np.asarray(b)
    if a.shape != b.shape:
        return False
    return bool(np.array_equal(a, b, equal_nan=(a.dtype.kind in 'fc' and b.dtype.kind in 'fc')))


def _dt(kind, level):
    return {('c', 'lo'): 'c64', ('c', 'hi'): 'c128', ('r', 'lo'): 'f32', ('r', 'hi'): 'f64'}[(kind, level)]


# (configured precision, width of the forward input / field, width of the upstream gradient)
DTYPE_SCHEDULE = [(32, 'lo', 'lo'), (32, 'hi', 'hi'), (32, 'lo', 'hi'), (32, 'hi', 'lo'),
                  (64, 'lo', 'lo'), (64, 'lo', 'hi'), (64, 'hi', 'lo')]
ALT_LAYOUTS = ('F', 'strided', 'reversed')


class Tag:
    """One configuration of a linear plan: which map, under which precision / dtypes / layouts, how to key a failure."""

    def __init__(self, name, map_id='A', ref=None, prec=64, xdt=None, ydt=None, xlay='C', ylay='C', rtol=RT_LIN,
                 key=None, sfx='', mon='adjoint', rep='repeat-call', law=True, xs=1.0, ys=1.0):
        self.name, self.map_id, self.ref, self.prec = name, map_id, ref, prec
        self.xdt, self.ydt, self.xlay, self.ylay, self.rtol = xdt, ydt, xlay, ylay, rtol
        self.key, self.sfx, self.mon, self.rep, self.law = key, sfx, mon, rep, law
        self.xs, self.ys = float(xs), float(ys)      # magnitude of the forward input / upstream gradient (class G)


# ('renew', kind, idx): the live argument object of that slot is overwritten in place with new random numbers, so the
# next call sees the same array object holding other values
PLAN_PLAIN = [('f', 0, 'base'), ('b', 0, 'base'), ('f', 1, 'base'), ('b', 1, 'base'), ('b', 0, 'base'), ('f', 0, 'base'),
              ('renew', 'b', 0), ('b', 0, 'base'), ('renew', 'f', 0), ('f', 0, 'base')]
PLAN_BFIRST = [('b', 0, 'base'), ('f', 0, 'base'), ('b', 1, 'base'), ('b', 0, 'base'), ('f', 1, 'base'),
               ('renew', 'f', 1), ('f', 1, 'base'), ('renew', 'b', 1), ('b', 1, 'base')]
LIN_VARIANTS = ('plain', 'backprop-first', 'layouts', 'dtypes', 'scales')
# class G (HARDENING3.md): (label, magnitude of the forward input, magnitude of the upstream gradient).  A linear pair is homogeneous of
# degree one in both: every backprop at a magnitude is paired with the forward at the same magnitude *and* with the forward at
# magnitude one (so B(s y) = s B(y) is part of the law), at the ordinary tolerance (all scales of the law are relative).
SCALE_REGIMES = (('tiny', 1e-12, 1e-12), ('small', 1e-9, 1e-9), ('huge', 1e12, 1e12), ('mixed', 1e-9, 1e9), ('large', 1e9, 1e9))


def lin_variant(row, variant, xkind, ykind, narrow_first=False):
    """Plan and tags of one of the generic call-plan variants -> (plan, tags, exact32).

    narrow_first: the single-precision / mixed schedule runs *before* the first double-precision call of the case
    (a warm-up that fills whatever the routines cache); the double-precision pair is still judged at full tolerance."""
    R = KEY_ROUTINE.get(row, row)
    tags = {'base': Tag('base')}
    if variant == 'plain':
        return list(PLAN_PLAIN), tags, False
    if variant == 'backprop-first':
        return list(PLAN_BFIRST), tags, False
    plan = [('f', 0, 'base'), ('b', 0, 'base')]
    if variant == 'layouts':
        for lay in ALT_LAYOUTS:
            t = Tag('layout:' + lay, ref='base', xlay=lay, ylay=lay, key=f'C06/{R}/layout:{lay}', mon='layout')
            tags[t.name] = t
            plan += [('b', 0, t.name), ('f', 0, t.name)]
        return plan, tags, False
    if variant == 'scales':
        for lab, sx, sy in SCALE_REGIMES:
            t = Tag('scale:' + lab, ref='base', xs=sx, ys=sy, key=f'C06/{R}/scale:{lab}', mon='scale')
            tags[t.name] = t
            plan += [('b', 0, t.name), ('f', 0, t.name)] if lab != 'small' else [('f', 0, t.name), ('b', 0, t.name)]
        # and the magnitude-one call once more on the same objects
        tags['after-scales'] = Tag('after-scales', ref='base', sfx='/after-scaled-calls', mon='history')
        plan += [('b', 1, 'after-scales'), ('f', 1, 'after-scales')]
        return plan, tags, False
    if variant == 'dtypes':
        narrow = []
        for prec, xl, yl in DTYPE_SCHEDULE:
            xdt, ydt = _dt(xkind, xl), _dt(ykind, yl)
            name = f'{prec}/{xdt}/{ydt}'
            tags[name] = Tag(name, map_id=name, prec=prec, xdt=xdt, ydt=ydt, rtol=RT_F32, key=f'C06/{R}/dtypes:{name}',
                             mon='precision')
            narrow += [('f', 0, name), ('b', 0, name)]
        tags['after32'] = Tag('after32', ref='base', sfx='/after-float32', mon='history')
        plan = (narrow + plan) if narrow_first else (plan + narrow)
        plan += [('b', 1, 'after32'), ('f', 1, 'after32')]
        return plan, tags, True
    raise ValueError(variant)


class Lin:
    """A linear case: forward A, companion B claimed to be A^H, exercised by a plan of calls."""
    kind = 'linear'

    def __init__(self, fwd, bwd, xshape, yshape, xkind='c', ykind='c', fwd_name=None, plan=None, tags=None,
                 tagged=False, fresh=None, exact32=False):
        self.fwd, self.bwd, self.xshape, self.yshape = fwd, bwd, tuple(xshape), tuple(yshape)
        self.xkind, self.ykind, self.fwd_name = xkind, ykind, fwd_name
        self.plan = plan if plan is not None else list(PLAN_PLAIN)
        self.tags = tags if tags is not None else {'base': Tag('base')}
        self.tagged, self.fresh, self.exact32 = tagged, fresh, exact32

    def vary(self, row, variant, rng=None):
        first = bool(rng.integers(2)) if (rng is not None and variant == 'dtypes') else False
        self.plan, self.tags, self.exact32 = lin_variant(row, variant, self.xkind, self.ykind, narrow_first=first)
        return self


class Twin:
    """The same (forward, backprop) under another configuration; judged against the validated double-precision result."""

    def __init__(self, label, f, vjp, key, rtol, mon):
        self.label, self.f, self.vjp, self.key, self.rtol, self.mon = label, f, vjp, key, rtol, mon


def config_twins(row, f, vjp, xkind, gkind, which):
    """Twins of closures f(x), vjp(x, g) that accept any dtype / layout: precision schedule or layouts."""
    R = KEY_ROUTINE.get(row, row)
    out = []

    def wrap(prec, xdt, gdt, lay):
        def f_t(x):
            with precision(prec):
                return f(relayout(cast(x, xdt), lay))

        def v_t(x, g):
            with precision(prec):
                return vjp(relayout(cast(x, xdt), lay), relayout(cast(g, gdt), lay))
        return f_t, v_t
    if which == 'dtypes':
        for prec, xl, gl in DTYPE_SCHEDULE:
            xdt, gdt = _dt(xkind, xl), _dt(gkind, gl)
            f_t, v_t = wrap(prec, xdt, gdt, 'C')
            out.append(Twin(f'{prec}/{xdt}/{gdt}', f_t, v_t, f'C06/{R}/dtypes:{prec}/{xdt}/{gdt}', RT_F32_NL, 'precision'))
    else:
        for lay in ALT_LAYOUTS:
            f_t, v_t = wrap(64, None, None, lay)
            out.append(Twin('layout:' + lay, f_t, v_t, f'C06/{R}/layout:{lay}', RT_LIN, 'layout'))
    return out


class Vjp:
    """A non-linear case: forward f at x0, companion vjp(x0, gbar) claimed to be J^H gbar."""
    kind = 'vjp'

    def __init__(self, f, vjp, x0, gkind='r', xkind='r', h=1e-2, nprobe=2, gshape=None, twins=(), after32=False,
                 twin_scale=None, repeat=True, warm=False, scales=True):
        self.f, self.vjp, self.x0, self.gkind, self.xkind, self.h, self.nprobe, self.gshape = f, vjp, x0, gkind, xkind, h, nprobe, gshape
        self.twins, self.after32, self.twin_scale, self.repeat, self.warm = list(twins), after32, twin_scale, repeat, warm
        self.scales = scales      # class G: the companion is linear in the upstream gradient at every magnitude


class Pointwise:
    """An activation node: backprop(x) claimed to be d forward / dx elementwise."""
    kind = 'pointwise'

    def __init__(self, node, x0, h, prec=64, xdt=None, lay='C', key=None, mon='pointwise', dmax=0.0):
        self.node, self.x0, self.h, self.prec, self.xdt, self.lay, self.key, self.mon = node, x0, h, prec, xdt, lay, key, mon
        self.dmax = dmax      # largest slope the node can have: single-precision round-off is relative to it


class Cost:
    """A cost function returning (cost, gradient)."""
    kind = 'cost'

    def __init__(self, fn, x0, h, nprobe=2, twins=(), big=False, mag=None):
        self.fn, self.x0, self.h, self.nprobe, self.twins, self.big = fn, x0, h, nprobe, list(twins), big
        self.mag = mag      # class G: label of the magnitude regime of model and data (None = ordinary)


class Extreme:
    """An activation node at extreme but legal pre-activations (class H)."""
    kind = 'extreme'

    def __init__(self, node, name, a, x0, y0, x, z, prec=64, xdt=None):
        self.node, self.name, self.a, self.x0v, self.y0v, self.x, self.z, self.prec, self.xdt = node, name, a, x0, y0, x, z, prec, xdt


class _OutOfDomain(Exception):
    pass


# ============================================================================================ the harness
class _Call:
    __slots__ = ('kind', 'idx', 'tag', 'snap', 'res', 'order')

    def __init__(self, kind, idx, tag, snap, res, order):
        self.kind, self.idx, self.tag, self.snap, self.res, self.order = kind, idx, tag, snap, res, order


class Harness:
    def __init__(self, ctx):
        self.ctx = ctx
        self.roundoff = {}
        self.roundoff32 = {}

    def _ro(self, row, rel, narrow=False):
        d = self.roundoff32 if narrow else self.roundoff
        if rel == rel and rel < 1e-2:
            d[row] = max(d.get(row, 0.0), rel)

    def key(self, row, cls):
        # the Wavefront methods of the fixed-sampling / mask-and-back backprops are thin wrappers: they are monitored
        # separately (own deciding monitor, 'form' in the descriptor) but keyed by the routine they wrap
        return f'C06/{KEY_ROUTINE.get(row, row)}/{cls}'

    def run_case(self, row, cls, desc, build):
        ctx = self.ctx
        desc = dict(desc)
        desc['row'] = row
        desc['class'] = f'{row}:{cls}' + (f'[{desc["detail"]}]' if 'detail' in desc else '') \
            + (f'{{{desc["variant"]}}}' if 'variant' in desc else '')
        key = self.key(row, cls)
        rng = np.random.default_rng(desc['sub'])
        try:
            case = build(rng)
        except _OutOfDomain as e:
            ctx.skip(f'{row}: {e}')
            return
        if case is None:
            return
        fn = getattr(self, 'check_' + case.kind)
        trivial = fn(row, key, desc, case, rng)
        ctx.case(desc, nontrivial=not trivial)
        self._trim()

    def _trim(self):
        """Keep the process-wide matrix-DFT executor bounded (public API only): it keeps two bases per distinct geometry."""
        self.ncases = getattr(self, 'ncases', 0) + 1
        if self.ncases % 20 == 0:
            from prysm.fttools import mdft
            if self.ncases % 400 == 0 or mdft.nbytes() > 1.5e8:
                mdft.clear()
                self.ctx.event('shared-mdft-executor-cleared')

    def _modified(self, row, what):
        self.ctx.event(f'argument-modified-in-place:{row}:{what}')

    # ---------------------------------------------------------------- linear: adjoint identity over a plan of calls
    def check_linear(self, row, key, desc, c, rng):
        ctx = self.ctx
        tags = c.tags
        base_arrays = {}
        live = {}

        def base_arr(kind, idx):
            k = (kind, idx)
            if k not in base_arrays:
                a = draw(rng, c.xshape if kind == 'f' else c.yshape, c.xkind if kind == 'f' else c.ykind)
                base_arrays[k] = f32_exact(a) if c.exact32 else a
            return base_arrays[k]

        def arg_for(kind, idx, tag):
            dt, lay, mag = (tag.xdt, tag.xlay, tag.xs) if kind == 'f' else (tag.ydt, tag.ylay, tag.ys)
            k = (kind, idx, dt, lay, mag)
            if k not in live:        # one object per (array, dtype, layout, magnitude): re-used by every later call that asks for it
                b0 = base_arr(kind, idx)
                live[k] = relayout(cast(b0 if mag == 1.0 else b0 * mag, dt), lay)
            return live[k]

        def vkey_of(tag, k):
            v = tag.key if tag.key else key + tag.sfx
            return v + ('/' + tag.rep if k > 0 else '')

        calls = []
        nb = {}
        for op in c.plan:
            if op[0] == 'do':
                op[1]()
                continue
            if op[0] == 'renew':
                _, kind, idx = op
                fresh_vals = draw(rng, c.xshape if kind == 'f' else c.yshape, c.xkind if kind == 'f' else c.ykind)
                for (kk, ii, dt, lay, mag), obj in live.items():
                    if kk == kind and ii == idx:
                        obj[...] = cast(fresh_vals * mag, dt)
                continue
            kind, idx, tname = op
            tag = tags[tname]
            arg = arg_for(kind, idx, tag)
            snap = np.array(arg, copy=True)
            fn = c.fwd if kind == 'f' else c.bwd
            k = nb.get(tname, 0)
            try:
                with precision(tag.prec):
                    res = fn(arg, tname) if c.tagged else fn(arg)
                res = np.array(res, copy=True)
            except _OutOfDomain as e:
                ctx.skip(f'{row}: {e}')
                return True
            except Exception as e:
                mon = f'{tag.mon if k == 0 else "history"}:{row}'
                ctx.observe(mon)
                vk = vkey_of(tag, k if kind == 'b' else 0)
                if kind == 'f':   # the forward itself does not run on this in-domain input: no map to differentiate
                    vk = f'C06/{c.fwd_name or row}/{vk.split("/", 2)[2]}/forward-raises:{type(e).__name__}'
                    ctx.violation(vk, f'{c.fwd_name or row}: the forward raises {type(e).__name__} ({str(e)[:120]}) on an '
                                  'in-domain input, so the node has no gradient there', desc, exception=repr(e)[:300],
                                  configuration=tname)
                else:
                    ctx.violation(f'{vk}/raises:{type(e).__name__}', f'{row} raises {type(e).__name__}: {str(e)[:160]}',
                                  desc, exception=repr(e)[:300], configuration=tname, call=len(calls))
                return False
            if not same(arg, snap):
                self._modified(row, 'forward-input' if kind == 'f' else 'upstream-gradient')
            if kind == 'b':
                nb[tname] = k + 1
                if res.shape != c.xshape:
                    ctx.observe(f'{tag.mon}:{row}')
                    ctx.violation(vkey_of(tag, k) + '/shape', f'{row}: gradient has shape {res.shape}, the forward input '
                                  f'has {c.xshape}', desc, configuration=tname)
                    return False
            elif res.shape != c.yshape:
                ctx.skip(f'{row}: forward output shape differs from the declared one')
                return True
            calls.append(_Call(kind, idx, tag, snap, res, len(calls)))

        fcalls = [q for q in calls if q.kind == 'f']
        bcalls = [q for q in calls if q.kind == 'b']

        def partners(tag):
            return [f for f in fcalls if f.tag.map_id == tag.map_id and f.tag.name in (tag.name, tag.ref)]

        def gain(tag):
            fs = partners(tag)
            return max((norm(f.res) / max(norm(f.snap), 1e-300) for f in fs), default=0.0)

        trivial = gain(tags['base']) == 0.0 and tags['base'].law
        failed = set()
        seen = {}
        kth = {}
        for b in bcalls:
            kth[id(b)] = seen.get(b.tag.name, 0)
            seen[b.tag.name] = kth[id(b)] + 1
        # the plain double-precision configuration is judged first: when it fails the case is reported under the class key
        # only, whatever the other configurations of the plan do
        for b in sorted(bcalls, key=lambda q: q.tag.name != 'base'):
            tag = b.tag
            k = kth[id(b)]
            if 'base' in failed:
                break
            if tag.name in failed or not tag.law:
                continue
            vk = vkey_of(tag, k)
            mon = f'{tag.mon if k == 0 else "history"}:{row}'
            nA = gain(tag)
            for f in partners(tag):
                lhs = inner(b.snap, f.res)
                rhs = inner(b.res, f.snap)
                scale = norm(f.snap) * norm(b.snap) * (nA if nA > 0 else 1.0)   # the zero map: its adjoint is the zero map
                rtol = max(tag.rtol, f.tag.rtol)
                what = f'{row} is not the adjoint of its forward: <ybar,Ax> != <backprop(ybar),x>'
                if tag.name != 'base' or k > 0:
                    what += f' [configuration {tag.name}, backprop call {k + 1} of that configuration in the plan ' \
                            f'{desc.get("variant", "")}]'
                ok = ctx.close(mon, rhs, lhs, vk, what, desc, rtol=rtol, scale=scale, lhs=complex(lhs), rhs=complex(rhs),
                               configuration=tag.name, backprop_call=b.order, forward_call=f.order)
                if ok and scale > 0:
                    self._ro(row, abs(lhs - rhs) / scale, narrow=rtol > RT_LIN)
                if not ok:
                    failed.add(tag.name)
                    break

        # a used object against a brand-new one (same call, same numbers)
        if c.fresh is not None and 'base' not in failed:
            last = {}
            for b in bcalls:
                last[b.tag.name] = b
            for tname, b in last.items():
                tag = b.tag
                if tname in failed:
                    continue
                k = seen.get(tname, 1) - 1
                try:
                    fwd2, bwd2 = c.fresh()
                    fs = [f for f in fcalls if f.tag.name == tname] or [f for f in fcalls if f.tag.map_id == tag.map_id]
                    with precision(tag.prec):
                        if fs:
                            fwd2(np.array(fs[-1].snap, copy=True), tname) if c.tagged else fwd2(np.array(fs[-1].snap, copy=True))
                        ref = bwd2(np.array(b.snap, copy=True), tname) if c.tagged else bwd2(np.array(b.snap, copy=True))
                    ref = np.array(ref, copy=True)
                except Exception:
                    ctx.skip(f'{row}: the brand-new reference object could not be driven')
                    continue
                sc = float(np.max(np.abs(ref))) if ref.size else 0.0
                ctx.close(f'fresh-object:{row}', b.res, ref, vkey_of(tag, k),
                          f'{row}: an object that has been used before returns another gradient than a brand-new object given '
                          f'the same call [configuration {tname}]', desc, rtol=max(tag.rtol if tag.rtol > RT_LIN else 0.0, RT_SAME),
                          scale=sc, configuration=tname)
        return trivial

    # ---------------------------------------------------------------- non-linear: directional derivative
    def _directional(self, mon, row, key, desc, cost_along, analytic, scale, what):
        ctx = self.ctx
        num, settle = richardson_directional(cost_along, 1.0)
        if not np.isfinite(num) or not (settle <= SETTLE * scale):
            ctx.skip(f'{row}: richardson extrapolants disagree > 1e-7 (non-smooth or round-off dominated point)')
            return None, num
        ok = ctx.close(mon, analytic, num, key, what, desc, rtol=RT_DIR, scale=scale,
                       analytic=float(np.real(analytic)), numeric=float(num))
        if ok and scale > 0:
            self._ro(row, abs(float(np.real(analytic)) - num) / scale)
        return ok, num

    def _raised(self, mon, row, key, desc, e, **detail):
        self.ctx.observe(mon)
        self.ctx.violation(f'{key}/raises:{type(e).__name__}', f'{row} raises {type(e).__name__}: {str(e)[:160]}',
                           desc, exception=repr(e)[:300], **detail)

    def check_vjp(self, row, key, desc, c, rng):
        ctx = self.ctx
        mon = 'dirderiv:' + row
        x0 = c.x0
        xs = np.array(x0, copy=True)          # the value of the input: every reference is computed from this snapshot
        try:
            y0 = np.asarray(c.f(x0))
        except _OutOfDomain as e:
            ctx.skip(f'{row}: {e}')
            return True
        if c.warm:
            # the narrow configurations run once *before* the first double-precision backprop (whatever they cache is in
            # place when the judged call is made); what they return is judged further down
            gw = draw(rng, y0.shape if c.gshape is None else c.gshape, c.gkind)
            for t in c.twins:
                try:
                    t.vjp(xs, gw)
                except Exception:
                    pass
        trivial = True
        good = None                           # (g object, its value, d, numeric derivative, scale, xbar) of the last passing probe
        for _ in range(c.nprobe):
            g = draw(rng, y0.shape if c.gshape is None else c.gshape, c.gkind)
            d = draw(rng, x0.shape, c.xkind)
            d *= c.h / max(np.max(np.abs(d)), 1e-300)        # largest per-sample step = h (in the input's own units)
            gs = np.array(g, copy=True)
            try:
                xbar = np.array(c.vjp(x0, g), copy=True)
            except _OutOfDomain as e:
                ctx.skip(f'{row}: {e}')
                return True
            except Exception as e:
                self._raised(mon, row, key, desc, e)
                return False
            if not same(g, gs):
                self._modified(row, 'upstream-gradient')
                g = np.array(gs, copy=True)
            if not same(x0, xs):
                self._modified(row, 'forward-input')
                x0[...] = xs
            if xbar.shape != x0.shape:
                ctx.observe(mon)
                ctx.violation(key + '/shape', f'{row}: gradient has shape {xbar.shape}, the forward input has {x0.shape}', desc)
                return False

            def cost_along(t, gs=gs, d=d):
                return float(np.real(inner(gs, c.f(xs + t * d))))
            Jd = (np.asarray(c.f(xs + d)) - np.asarray(c.f(xs - d))) / 2
            scale = norm(gs) * norm(Jd)
            if scale == 0.0:
                ctx.skip(f'{row}: zero response J d')
                continue
            if norm(Jd) < FLOOR * norm(y0):
                # e.g. a softmax saturated to one-hot: J d is at the round-off level of the forward values, a finite
                # difference cannot resolve it to 1e-7 relative
                ctx.skip(f'{row}: response |J d| < 1e-5 |f(x)| (finite differences round-off dominated)')
                continue
            trivial = False
            analytic = np.real(inner(xbar, d))
            ok, num = self._directional(mon, row, key, desc, cost_along, analytic, scale,
                                        f'{row}: Re<backprop(gbar),d> is not the directional derivative of Re<gbar,forward(x)>')
            if ok is False:
                return trivial
            if ok:
                good = (g, gs, d, num, scale, xbar)
        if good is None:
            return trivial
        g, gs, d, num, scale, xbar = good
        hmon = 'history:' + row

        def again(sfx, what):
            """The same call once more, with the same argument objects, against the reference already measured."""
            try:
                xb = np.array(c.vjp(x0, g), copy=True)
            except Exception as e:
                self._raised(hmon, row, key + sfx, desc, e)
                return False
            if not same(g, gs):
                g[...] = gs
            if not same(x0, xs):
                x0[...] = xs
            if xb.shape != xs.shape:
                ctx.observe(hmon)
                ctx.violation(key + sfx + '/shape', f'{row}: gradient has shape {xb.shape}, the forward input has {xs.shape}', desc)
                return False
            return ctx.close(hmon, np.real(inner(xb, d)), num, key + sfx, what, desc, rtol=RT_DIR, scale=scale)

        if c.repeat:
            if not again('/repeat-call', f'{row}: a second call with the same argument objects no longer returns the '
                         'directional derivative that the first call returned'):
                return trivial
        sc0 = float(np.max(np.abs(xbar)))
        if c.scales and sc0 > 0:
            # class G: a vector-Jacobian product is linear in the upstream gradient, whatever its magnitude
            smon = 'scale:' + row
            for lab, sg in UPSTREAM_SCALES:
                gq = np.array(gs * sg, copy=True)
                try:
                    xq = np.array(c.vjp(x0, gq), copy=True)
                except Exception as e:
                    self._raised(smon, row, f'{key}/scale:{lab}', desc, e)
                    continue
                if not same(x0, xs):
                    x0[...] = xs
                ctx.close(smon, xq, sg * xbar, f'{key}/scale:{lab}', f'{row}: the gradient returned for the upstream gradient times '
                          f'{sg:g} is not {sg:g} times the gradient returned for the upstream gradient itself (the companion is '
                          'linear in it)', desc, rtol=RT_LIN, scale=sg * sc0, magnitude=sg)
        for t in c.twins:
            tmon = f'{t.mon}:{row}'
            try:
                yt = np.asarray(t.f(xs))
            except Exception:
                ctx.skip(f'{row}: the forward does not run in configuration {t.label.split(":")[0]}')
                continue
            if yt.shape != y0.shape or not (norm(np.asarray(yt, dtype=complex) - y0) <= FWD_F32 * norm(y0)):
                ctx.skip(f'{row}: forward of a narrow configuration differs from the double-precision forward by > 1e-4')
                continue
            try:
                xt = np.array(t.vjp(xs, gs), copy=True)
            except Exception as e:
                self._raised(tmon, row, t.key, desc, e, configuration=t.label)
                continue
            if xt.shape != xs.shape:
                ctx.observe(tmon)
                ctx.violation(t.key + '/shape', f'{row}: gradient has shape {xt.shape}, the forward input has {xs.shape} '
                              f'[configuration {t.label}]', desc)
                continue
            sc = sc0 if c.twin_scale is None else max(sc0, float(c.twin_scale(gs, xbar)))
            ok = ctx.close(tmon, xt, xbar, t.key, f'{row}: in configuration {t.label} (precision/field dtype/gradient dtype, or '
                           'memory layout) the gradient differs from the validated double-precision gradient of the same numbers',
                           desc, rtol=t.rtol, scale=sc, configuration=t.label)
            if ok and sc > 0:
                self._ro(row, float(np.max(np.abs(np.asarray(xt, dtype=complex) - xbar))) / sc, narrow=t.rtol > RT_LIN)
        if c.after32:
            again('/after-float32', f'{row}: after the same objects were used in single precision the double-precision call '
                  'no longer returns the directional derivative')
        return trivial

    def check_pointwise(self, row, key, desc, c, rng):
        ctx = self.ctx
        mon = f'{c.mon}:{row}'
        key = c.key or key
        narrow = c.prec == 32 or c.xdt == 'f32'
        x = relayout(cast(c.x0, c.xdt), c.lay)
        keep = np.array(x, copy=True)
        try:
            with precision(c.prec):
                got = np.array(c.node.backprop(x), copy=True)
                got2 = np.array(c.node.backprop(x), copy=True)
        except Exception as e:
            self._raised(mon, row, key, desc, e)
            return False
        intact = ctx.require('no-input-mutation:' + row, same(x, keep), key + '/mutates-input',
                             f'{row} modifies the array it is given', desc)
        # reference: Richardson central differences where they are well conditioned; the complex-step derivative
        # (no subtractive cancellation) everywhere once it has been validated against Richardson on those elements;
        # always computed in double precision from the value the argument had
        keep = np.asarray(keep, dtype=float)
        f0 = np.abs(np.asarray(c.node.forward(keep)))
        rich, settle = richardson_elementwise(c.node.forward, keep, c.h)
        scale = float(np.max(np.abs(rich))) if rich.size else 0.0
        if scale == 0.0:
            return True
        good = (settle <= SETTLE * scale) & (np.abs(rich) * c.h >= FLOOR * np.maximum(f0, 1e-300))
        ref, use = rich, good
        try:
            with np.errstate(all='ignore'):
                cs = complex_step_elementwise(c.node.forward, keep)
            if cs.shape == rich.shape and np.isfinite(cs).all() and good.any() \
                    and np.max(np.abs(cs[good] - rich[good])) <= RT_DIR * scale:
                ref, use = cs, np.ones(rich.shape, dtype=bool)
                scale = float(np.max(np.abs(cs)))
        except Exception:
            pass
        if not use.all():
            ctx.skip(f'{row}: finite-difference reference ill-conditioned and complex step not validated (elements dropped)',
                     int((~use).sum()))
        if not use.any():
            return True
        if got.shape != ref.shape:
            ctx.observe(mon)
            ctx.violation(key + '/shape', f'{row}: shape {got.shape} != {ref.shape}', desc)
            return False
        rtol = RT_F32_NL if narrow else RT_DIR
        if narrow:
            scale = max(scale, float(c.dmax))
        ok = ctx.close(mon, got[use], ref[use], key, f'{row}(x) is not d forward/dx', desc, rtol=rtol, scale=scale)
        if ok:
            self._ro(row, float(np.max(np.abs(got[use] - ref[use]))) / scale, narrow=narrow)
        if ok and intact:
            rs = 1e-5 if narrow else RT_SAME      # single precision: vectorised and scalar loops may differ in the last place
            ctx.close('history:' + row, got2, got, key + '/repeat-call', f'{row}: a second call with the same array returns '
                      'another derivative', desc, rtol=rs, scale=scale)
            # the same array object holding other numbers, against a new array holding those numbers
            x[...] = cast(np.asarray(keep)[..., ::-1] * 0.75 + 0.125, c.xdt) if x.ndim else cast(keep * 0.75 + 0.125, c.xdt)
            try:
                with precision(c.prec):
                    got3 = np.array(c.node.backprop(x), copy=True)
                    ref3 = np.array(c.node.backprop(np.array(x, copy=True)), copy=True)
                ctx.close('history:' + row, got3, ref3, key + '/repeat-call', f'{row}: the same array object holding other numbers '
                          'gets another derivative than a new array holding those numbers', desc, rtol=rs,
                          scale=float(np.max(np.abs(ref3))) if ref3.size else 0.0)
            except Exception as e:
                self._raised('history:' + row, row, key + '/repeat-call', desc, e)
        return False

    # ---------------------------------------------------------------- class H: extreme but legal pre-activations
    def check_extreme(self, row, key, desc, c, rng):
        """backprop(x) == d forward/dx where |a (x - x0)| is 30 ... 800 (both signs), elements of every regime in one array.

        Reference: the closed form (vp.refmodels.activations, overflow-free).  An element is judged only where (i) the forward
        the node computes is finite, (ii) that forward value is the closed-form value (so the closed form is the function being
        differentiated) and (iii) a numerical derivative of the node's own forward -- the complex step where it is finite, else
        Richardson differences where they settle -- agrees with the closed-form derivative; everything else is excluded and
        counted.  Tolerance: 1e-6 of the node's largest slope |a| (2e-2 |a| for single-precision inputs): for the saturating
        nodes the library's own round-off there is ~1e-16 |a| (1 - fx**2 with fx = 1 - 1 ulp)."""
        ctx = self.ctx
        mon = 'special:' + row
        key = getattr(c, 'key', None) or f'C06/{KEY_ROUTINE.get(row, row)}'     # the slope class is in the case label, not in the key
        narrow = c.prec == 32 or c.xdt == 'f32'
        x = cast(c.x, c.xdt)
        keep = np.array(x, copy=True)
        try:
            with precision(c.prec), np.errstate(all='ignore'), warnings.catch_warnings():
                warnings.simplefilter('ignore')
                fwd = np.asarray(c.node.forward(x))
                got = np.array(c.node.backprop(x), copy=True)
                got2 = np.array(c.node.backprop(x), copy=True)
        except Exception as e:
            self._raised(mon, row, key, desc, e)
            return False
        ctx.require('no-input-mutation:' + row, same(x, keep), key + '/mutates-input', f'{row} modifies the array it is given', desc)
        if got.shape != keep.shape or fwd.shape != keep.shape:
            ctx.observe(mon)
            ctx.violation(key + '/shape', f'{row}: shape {got.shape} != {keep.shape}', desc)
            return False
        xd = np.asarray(keep, dtype=np.float64)
        amax = abs(float(c.a))
        ref = ACT.derivative(c.name, c.a, c.x0v, xd)
        val = ACT.value(c.name, c.a, c.x0v, c.y0v, xd)
        z = float(c.a) * (xd - float(c.x0v))
        finite = np.isfinite(fwd)
        if (~finite).any():
            ctx.skip(f'{row}: the forward overflows to a non-finite value at this pre-activation (no finite forward to differentiate)',
                     int((~finite).sum()))
        with np.errstate(all='ignore'):
            known = finite & (np.abs(np.where(finite, fwd, 0.0) - val) <= (1e-4 if narrow else 1e-9) * np.maximum(1.0, np.abs(val)))
        if (finite & ~known).any():
            ctx.skip(f'{row}: forward value differs from the closed form (another function is being differentiated)', int((finite & ~known).sum()))
        # numerical derivative of the node's own forward, in double precision from the value the argument had
        with np.errstate(all='ignore'), warnings.catch_warnings():
            warnings.simplefilter('ignore')
            try:
                cs = np.asarray(complex_step_elementwise(c.node.forward, xd), dtype=np.float64)
                if cs.shape != xd.shape:
                    cs = np.full(xd.shape, np.nan)
            except Exception:
                cs = np.full(xd.shape, np.nan)
            try:
                rich, settle = richardson_elementwise(c.node.forward, xd, 3e-3 / amax)
                rich = np.where(np.isfinite(rich) & (settle <= RT_DIR * amax), rich, np.nan)
            except Exception:
                rich = np.full(xd.shape, np.nan)
            conf = np.where(np.isfinite(cs), cs, rich)
            agree = np.isfinite(conf) & (np.abs(conf - ref) <= RT_DIR * amax)
        if (known & ~agree).any():
            ctx.skip(f'{row}: no numerical derivative of the forward confirms the closed form at this pre-activation (elements dropped)',
                     int((known & ~agree).sum()))
        judged = known & agree
        rtol = RT_F32_NL if narrow else RT_DIR
        ok_all = True
        for lab, sel in (('preactivation>=+30', z >= 30), ('preactivation<=-30', z <= -30), ('moderate-among-extremes', np.abs(z) < 30)):
            m = judged & sel
            if not m.any():
                continue
            ok = ctx.close(mon, got[m], ref[m], f'{key}/special:{lab}', f'{row}(x) is not d forward/dx at extreme pre-activations '
                           f'a(x-x0) [{lab}]', desc, rtol=rtol, scale=amax,
                           worst_preactivation=float(z[m][np.argmax(np.abs(np.where(np.isfinite(got[m]), got[m], np.inf) - ref[m]))]))
            ok_all = ok_all and ok
            if ok:
                self._ro(row, float(np.max(np.abs(got[m] - ref[m]))) / amax, narrow=narrow)
        if ok_all and judged.any():
            ctx.close('history:' + row, got2[judged], got[judged], key + '/repeat-call', f'{row}: a second call with the same array returns '
                      'another derivative', desc, rtol=1e-5 if narrow else RT_SAME, scale=amax)
        return not judged.any()

    def check_cost(self, row, key, desc, c, rng):
        ctx = self.ctx
        mon = ('dirderiv:' if c.mag is None else 'scale:') + row
        x0 = c.x0
        keep = np.array(x0, copy=True)
        try:
            cost0, grad = c.fn(x0)
            grad = np.array(grad, copy=True)
        except Exception as e:
            self._raised(mon, row, key, desc, e)
            return False
        if not same(x0, keep):
            self._modified(row, 'model-data')
            x0[...] = keep
        if grad.shape != x0.shape:
            ctx.observe(mon)
            ctx.violation(key + '/shape', f'{row}: gradient has shape {grad.shape}, the model input has {x0.shape}', desc)
            return False
        trivial = True
        if c.big:
            # |grad| from a few directional derivatives of the returned cost (a per-coordinate loop is too long here)
            gnum = hutchinson_norm(lambda dd: (c.fn(keep + c.h * dd)[0] - c.fn(keep - c.h * dd)[0]) / (2 * c.h), x0.shape, rng)
        else:
            # reference-side scale |grad| |d|: plain central differences per coordinate (sizes are small)
            gn = np.zeros(x0.size)
            for j in range(x0.size):
                e = np.zeros(x0.size)
                e[j] = c.h
                e = e.reshape(x0.shape)
                gn[j] = (c.fn(keep + e)[0] - c.fn(keep - e)[0]) / (2 * c.h)
            gnum = norm(gn)
        passed = True
        for _ in range(c.nprobe):
            d = rng.standard_normal(x0.shape)
            d *= c.h / max(np.max(np.abs(d)), 1e-300)

            def cost_along(t):
                return float(c.fn(keep + t * d)[0])
            scale = gnum * norm(d)
            if scale == 0.0:
                ctx.skip(f'{row}: zero response')
                continue
            if scale < FLOOR * abs(cost0):
                ctx.skip(f'{row}: response < 1e-5 |cost| (finite differences round-off dominated)')
                continue
            trivial = False
            analytic = float(np.sum(grad * d))
            ok, _ = self._directional(mon, row, key, desc, cost_along, analytic, scale,
                                      f'{row}: returned gradient is not the gradient of the returned cost')
            if not ok:
                passed = False
        if trivial or not passed:
            return trivial
        # after all those calls with the same data / mask objects: the same call again must return the same pair
        gsc = float(np.max(np.abs(grad)))
        try:
            cost1, grad1 = c.fn(x0)
            ctx.close('history:' + row, np.append(np.ravel(grad1) / max(gsc, 1e-300), cost1 / max(abs(cost0), 1e-300)),
                      np.append(np.ravel(grad) / max(gsc, 1e-300), cost0 / max(abs(cost0), 1e-300)), key + '/repeat-call',
                      f'{row}: a later call with the same argument objects returns another (cost, gradient)', desc,
                      rtol=RT_SAME, scale=1.0)
        except Exception as e:
            self._raised('history:' + row, row, key + '/repeat-call', desc, e)
        for t in c.twins:
            tmon = f'{t.mon}:{row}'
            try:
                ct, gt = t.f(keep)
                gt = np.array(gt, copy=True)
            except Exception as e:
                self._raised(tmon, row, t.key, desc, e, configuration=t.label)
                continue
            if not (abs(ct - cost0) <= FWD_F32 * abs(cost0)):
                ctx.skip(f'{row}: cost of a narrow configuration differs from the double-precision cost by > 1e-4')
                continue
            if gt.shape != grad.shape:
                ctx.observe(tmon)
                ctx.violation(t.key + '/shape', f'{row}: gradient has shape {gt.shape}, the model input has {grad.shape} '
                              f'[configuration {t.label}]', desc)
                continue
            ok = ctx.close(tmon, gt, grad, t.key, f'{row}: in configuration {t.label} the gradient differs from the validated '
                           'double-precision gradient of the same numbers', desc, rtol=t.rtol, scale=gsc, configuration=t.label)
            if ok and gsc > 0:
                self._ro(row, float(np.max(np.abs(gt - grad))) / gsc, narrow=t.rtol > RT_LIN)
        return trivial


# ============================================================================================ the table
# Each generator yields (cls, desc, build) with build(rng) -> Lin | Vjp | Pointwise | Cost.  `n` is the number
# of random extras wanted on this shard after the enumerated classes; `k` counts enumeration indices for sharding.
def _subseed(rng):
    return int(rng.integers(0, 2 ** 31 - 1))


SHAPES_SMALL = {
    'sq': [(4, 4), (5, 5), (6, 6), (7, 7)],
    'nonsq': [(4, 6), (5, 8), (7, 4), (6, 9), (5, 7)],
    'line': [(1, 6), (7, 1)],
}


def _rand_shape(rng, kind, lo, hi):
    if kind == 'sq':
        n = int(rng.integers(lo, hi + 1))
        return (n, n)
    if kind == 'line':
        n = int(rng.integers(max(lo, 2), hi + 1))
        return (1, n) if rng.integers(2) else (n, 1)
    while True:
        a, b = (int(v) for v in rng.integers(lo, hi + 1, 2))
        if a != b:
            return (a, b)


def _big_shape(rng, kind, big, long):
    """Numeric-regime classes: 'big' = a large array (either parity, square or mildly non-square),
    'sliver' = extreme aspect ratio (1..3 samples one way, `long` the other)."""
    if kind == 'big':
        a = int(rng.integers(big // 2, big + 1))
        b = a if rng.integers(2) else int(rng.integers(big // 2, big + 1))
        return (a, b)
    n = int(rng.integers(long // 2, long + 1))
    w = int(rng.integers(1, 4))
    return (w, n) if rng.integers(2) else (n, w)


def _shift_of(rng, kind):
    if kind == '0':
        return (0, 0)
    c = int(rng.integers(4))
    if c == 0:
        return (float(rng.integers(-3, 4)) or 1.0, float(rng.integers(-3, 4)))
    if c == 1:
        return (float(np.round(rng.uniform(-2, 2), 3)) or 0.5, 0)
    if c == 2:
        return (0, float(np.round(rng.uniform(-2, 2), 3)) or -0.25)
    return tuple(float(v) for v in np.round(rng.uniform(-3, 3, 2), 3))


def _Q_of(rng, kind):
    if kind == 'scalar':
        return [1, 2, 1.5, float(np.round(rng.uniform(0.8, 4), 3)), 3][int(rng.integers(5))]
    q = tuple(float(v) for v in np.round(rng.uniform(0.8, 4, 2), 3))
    return q


def _np_scalars(v, how):
    """The same numbers in another container class: numpy float64 / float32-representable scalars inside the tuple."""
    if how == 0:
        return v
    if isinstance(v, tuple):
        return tuple(np.float64(s) for s in v)
    return np.float64(v)


def gen_mdft(ctx, rng, which):
    """mdft.dft2 <-> dft2_backprop, mdft.idft2 <-> idft2_backprop (module-level shared executor and private executors)."""
    from prysm.fttools import mdft, MatrixDFTExecutor
    hi = ctx.pick(12, 40)
    kinds = ['sq', 'nonsq', 'line']
    classes = [(a, b, q, s) for a in kinds for b in kinds for q in ('scalar', 'pair') for s in ('0', 'nz')]
    # numeric regimes: large arrays and extreme aspect ratios, against each other and against ordinary shapes
    regimes = [('big', 'big'), ('sliver', 'sliver'), ('big', 'sliver'), ('sliver', 'sq'), ('nonsq', 'big'), ('sliver', 'big')]
    classes += [(a, b, q, s) for (a, b) in regimes for (q, s) in (('scalar', '0'), ('pair', 'nz'))]
    nreg = 2 * len(regimes)
    variants = LIN_VARIANTS + ('executor-history', 'private-executor')
    reps = ctx.pick(24, 220)
    big, long = ctx.pick(96, 320), ctx.pick(300, 1200)
    k = -1
    for rep in range(reps + 1):
        for ci, (ka, kb, kq, ks) in enumerate(classes):
            regime = ci >= len(classes) - nreg
            if regime and rep % ctx.pick(6, 4) != 1:
                continue
            k += 1
            if not ctx.mine(k):
                continue

            def shp(kind, j):
                if kind in ('big', 'sliver'):
                    return _big_shape(rng, kind, big, long)
                if rep == 0:
                    return SHAPES_SMALL[kind][(k // (1 if j == 0 else 3)) % len(SHAPES_SMALL[kind])]
                return _rand_shape(rng, kind, 2, hi)
            sa, sb = shp(ka, 0), shp(kb, 1)
            Q = _Q_of(rng, kq)
            shift = _shift_of(rng, ks)
            xk = 'r' if (k % 5 == 0) else 'c'
            samples_int = (sb[0] == sb[1] and k % 2 == 0)    # the int form of samples_out on the forward side
            back_int = (sa[0] == sa[1] and k % 4 < 2)        # the int form of the input-shape argument of the backprop
            variant = variants[(rep + ci) % len(variants)]
            if regime and variant == 'dtypes' and max(sa + sb) > 400:
                variant = 'plain'
            scal = (rep + ci // 2) % 3 == 2                   # numpy scalars instead of python numbers in Q / shift
            cls = f'{ka}->{kb}/Q:{kq}/shift:{ks}'
            desc = {'in': sa, 'out': sb, 'parity': shape_class(sa) + '>' + shape_class(sb), 'Q': Q, 'shift': shift,
                    'x': xk, 'samples_as_int': [samples_int, back_int], 'variant': variant, 'numpy_scalars': scal,
                    'sub': _subseed(rng)}

            def build(r, sa=sa, sb=sb, Q=Q, shift=shift, xk=xk, samples_int=samples_int, back_int=back_int,
                      variant=variant, scal=scal):
                so = sb[0] if samples_int else sb
                si = sa[0] if back_int else sa
                Qb, shb = _np_scalars(Q, int(scal)), _np_scalars(shift, int(scal))   # the backprop gets the other container
                ex = mdft if variant != 'private-executor' else MatrixDFTExecutor()
                fwd = getattr(ex, which)
                bwd = getattr(ex, which + '_backprop')
                c = Lin(lambda x: fwd(x, Q, so, shift), lambda y: bwd(y, Qb, si, shb), sa, sb, xkind=xk)
                if variant in LIN_VARIANTS:
                    return c.vary('mdft.' + which + '_backprop', variant, r)
                if variant == 'private-executor':
                    # a private executor whose first call is the backprop, against a brand-new one
                    c.plan = list(PLAN_BFIRST)

                    def fresh():
                        e2 = MatrixDFTExecutor()
                        return (lambda x: getattr(e2, which)(x, Q, so, shift)), \
                               (lambda y: getattr(e2, which + '_backprop')(y, Qb, si, shb))
                    c.fresh = fresh
                    return c
                # executor-history: the shared executor is emptied / asked for its size between the calls of one plan,
                # and an unrelated transform of the other direction with the same geometry goes through it
                other = 'idft2' if which == 'dft2' else 'dft2'

                def unrelated():
                    getattr(mdft, other)(np.ones(sa), Q, so, shift)
                    getattr(mdft, other + '_backprop')(np.ones(sb), Qb, si, shb)
                c.plan = [('f', 0, 'base'), ('do', mdft.clear), ('b', 0, 'base'), ('do', unrelated), ('b', 1, 'base'),
                          ('do', mdft.nbytes), ('f', 1, 'base'), ('do', mdft.clear), ('b', 0, 'base'), ('f', 0, 'base')]
                return c
            yield cls, desc, build


def _focal_geometry(rng, pupil_shape):
    """Random physical parameters with Q (axis 0) in [1, 4]."""
    dx = float(np.round(rng.uniform(0.02, 0.5), 4))          # mm
    wvl = float(np.round(rng.uniform(0.4, 1.6), 3))           # um
    efl = float(np.round(rng.uniform(50, 500), 1))            # mm
    Q = float(rng.uniform(1, 4))
    fdx = wvl * efl / (pupil_shape[0] * dx) / Q               # um
    fdx = float(np.round(fdx, 4 - int(math.floor(math.log10(abs(fdx)))) - 1))
    return dx, wvl, efl, fdx


def _phys_shift(rng, kind, unit):
    if kind == '0':
        return (0, 0)
    s = _shift_of(rng, 'nz')
    return (float(np.round(s[0] * unit, 6)), float(np.round(s[1] * unit, 6)))


def gen_ffs(ctx, rng, which, form):
    """focus_fixed_sampling / unfocus_fixed_sampling <-> their backprops; function and Wavefront forms."""
    from prysm import propagation as P
    row = {('focus', 'function'): 'focus_fixed_sampling_backprop', ('focus', 'Wavefront'): 'Wavefront.focus_fixed_sampling_backprop',
           ('unfocus', 'function'): 'unfocus_fixed_sampling_backprop'}[(which, form)]
    hi = ctx.pick(10, 32)
    kinds = ['sq', 'nonsq']
    rel = ['equal', 'unequal']
    classes = [(ka, r, ks) for ka in kinds for r in rel for ks in ('0', 'nz')]
    classes += [('big', 'unequal', 'nz'), ('sliver', 'unequal', '0'), ('sliver', 'equal', 'nz'), ('big', 'equal', '0')]
    variants = LIN_VARIANTS + (('instance-history',) if form == 'Wavefront' else ())
    reps = ctx.pick(96, 1000)
    big, long = ctx.pick(72, 256), ctx.pick(200, 1200)
    k = -1
    for rep in range(reps + 1):
        for ci, (ka, r, ks) in enumerate(classes):
            regime = ka in ('big', 'sliver')
            if regime and rep % ctx.pick(12, 8) != 1:
                continue
            k += 1
            if not ctx.mine(k):
                continue
            if regime:
                pupil = _big_shape(rng, ka, big, long)
            else:
                pupil = SHAPES_SMALL[ka][k % len(SHAPES_SMALL[ka])] if rep == 0 else _rand_shape(rng, ka, 3, hi)
            if r == 'equal':
                focal = pupil
            elif regime:
                focal = _big_shape(rng, ['big', 'sliver'][int(rng.integers(2))], big, long)
            else:
                fk = ['sq', 'nonsq'][int(rng.integers(2))]
                while True:
                    focal = _rand_shape(rng, fk, 3, hi + 4)
                    if focal != pupil:
                        break
            dx, wvl, efl, fdx = _focal_geometry(rng, pupil)
            # shift is "same units as output_dx": focal units (um) for focus, pupil units (mm) for unfocus
            shift = _phys_shift(rng, ks, fdx if which == 'focus' else dx)
            as_int = (k % 2 == 0)
            variant = variants[(rep + ci) % len(variants)]
            if regime and variant == 'dtypes' and max(pupil + focal) > 400:
                variant = 'plain'
            cls = f'pupil:{ka}/focal:{r}/shift:{ks}'
            desc = {'pupil': pupil, 'focal': focal, 'dx': dx, 'wvl': wvl, 'efl': efl, 'fdx': fdx, 'shift': shift,
                    'form': form, 'int_samples': as_int, 'variant': variant, 'sub': _subseed(rng)}

            def build(r_, pupil=pupil, focal=focal, dx=dx, wvl=wvl, efl=efl, fdx=fdx, shift=shift, as_int=as_int, variant=variant):
                def smp(s):
                    return s[0] if (as_int and s[0] == s[1]) else s
                if which == 'focus':
                    if form == 'function':
                        return Lin(lambda x: P.focus_fixed_sampling(x, dx, efl, wvl, fdx, smp(focal), shift=shift),
                                   lambda y: P.focus_fixed_sampling_backprop(y, dx, efl, wvl, fdx, smp(pupil), shift=shift),
                                   pupil, focal).vary(row, variant, r_)
                    if variant != 'instance-history':
                        return Lin(lambda x: P.Wavefront(x, wvl, dx).focus_fixed_sampling(efl, fdx, smp(focal), shift=shift).data,
                                   lambda y: P.Wavefront(y, wvl, fdx, 'psf').focus_fixed_sampling_backprop(efl, dx, smp(pupil), shift=shift).data,
                                   pupil, focal).vary(row, variant, r_)
                    # one pupil-plane and one focal-plane Wavefront instance serve every call of the plan: .data is
                    # re-assigned, other geometries are propagated through the same instances in between
                    wp, wf = P.Wavefront(np.zeros(pupil, dtype=complex), wvl, dx), P.Wavefront(np.zeros(focal, dtype=complex), wvl, fdx, 'psf')

                    def fwd(x):
                        wp.data = x
                        return wp.focus_fixed_sampling(efl, fdx, smp(focal), shift=shift).data

                    def bwd(y):
                        wf.data = y
                        return wf.focus_fixed_sampling_backprop(efl, dx, smp(pupil), shift=shift).data

                    def elsewhere():
                        wp.focus_fixed_sampling(efl * 1.5, fdx, (focal[0] + 1, focal[1] + 2), shift=(fdx, 0))
                        wf.focus_fixed_sampling_backprop(efl * 0.75, dx, (pupil[0] + 2, pupil[1] + 1), shift=(0, -fdx))
                        wf.copy().focus_fixed_sampling_backprop(efl, dx, smp(pupil))
                    c = Lin(fwd, bwd, pupil, focal)
                    c.plan = [('f', 0, 'base'), ('b', 0, 'base'), ('do', elsewhere), ('b', 1, 'base'), ('f', 1, 'base'),
                              ('do', elsewhere), ('b', 0, 'base')]
                    c.fresh = lambda: (lambda x: P.Wavefront(x, wvl, dx).focus_fixed_sampling(efl, fdx, smp(focal), shift=shift).data,
                                       lambda y: P.Wavefront(y, wvl, fdx, 'psf').focus_fixed_sampling_backprop(efl, dx, smp(pupil), shift=shift).data)
                    return c
                # unfocus: forward maps focal -> pupil
                return Lin(lambda x: P.unfocus_fixed_sampling(x, fdx, efl, wvl, dx, smp(pupil), shift=shift),
                           lambda y: P.unfocus_fixed_sampling_backprop(y, fdx, efl, wvl, dx, smp(focal), shift=shift),
                           focal, pupil).vary(row, variant, r_)
            yield cls, desc, build


def _mask(rng, shape, kind):
    """real: grey-level transmission in [0,1] (every fourth one a hard-edged boolean mask); complex: amplitude * phase."""
    m = rng.uniform(0.0, 1.0, shape)
    if kind == 'complex':
        m = m * np.exp(1j * rng.uniform(-np.pi, np.pi, shape))
    elif rng.integers(4) == 0:
        m = m > 0.4
        if m.sum() < 2:
            m[...] = True
    return m


def _mask_plan(c, masks_equal):
    """Plan for the mask rows: two masks A and B of the same shape alternate on the same argument objects
    (A, B, A again); every pair is judged within its own mask.  `masks_equal` tells whether a parameter array was changed."""
    c.tags = {'base': Tag('base'), 'B': Tag('B', map_id='B', sfx='/second-mask', mon='history'),
              'A2': Tag('A2', ref='base', sfx='/first-mask-again', mon='history')}
    c.tagged = True
    c.plan = [('f', 0, 'base'), ('b', 0, 'base'), ('b', 0, 'B'), ('f', 0, 'B'), ('b', 1, 'A2'), ('f', 1, 'A2'),
              ('b', 0, 'base'), ('do', masks_equal)]
    return c


def gen_tfb(ctx, rng, form):
    """to_fpm_and_back <-> to_fpm_and_back_backprop."""
    from prysm import propagation as P
    row = 'to_fpm_and_back_backprop' if form == 'function' else 'Wavefront.to_fpm_and_back_backprop'
    hi = ctx.pick(9, 28)
    classes = [(mk, r, ks) for mk in ('real', 'complex') for r in ('same', 'other') for ks in ('0', 'nz')]
    variants = LIN_VARIANTS + ('mask-history',)
    reps = ctx.pick(96, 1000)
    big, long = ctx.pick(64, 200), ctx.pick(160, 900)
    k = -1
    for rep in range(reps + 1):
        for ci, (mk, r, ks) in enumerate(classes):
            k += 1
            if not ctx.mine(k):
                continue
            regime = rep % ctx.pick(12, 8) == 5          # every class also at a numeric-regime size
            pk = 'sq' if (k // 8) % 3 != 2 else 'nonsq'
            if regime:
                pk = ['big', 'sliver'][(rep // 12 + ci) % 2]
                pupil = _big_shape(rng, pk, big, long)
            else:
                pupil = SHAPES_SMALL[pk][k % len(SHAPES_SMALL[pk])] if rep == 0 else _rand_shape(rng, pk, 3, hi)
            if r == 'same':
                ms = pupil
            elif regime:
                ms = _big_shape(rng, ['sliver', 'big'][(rep // 12 + ci) % 2], big, long)
            else:
                while True:
                    ms = _rand_shape(rng, ['sq', 'nonsq'][int(rng.integers(2))], 3, hi + 4)
                    if ms != pupil:
                        break
            dx, wvl, efl, fdx = _focal_geometry(rng, pupil)
            shift = _phys_shift(rng, ks, fdx)
            more = (k % 3 == 0)
            variant = variants[(rep + ci) % len(variants)]
            if regime and variant == 'dtypes' and max(pupil + ms) > 400:
                variant = 'plain'
            cls = f'{mk}-mask/{r}-shape/shift:{ks}'
            desc = {'pupil': pupil, 'mask': ms, 'mask_kind': mk, 'dx': dx, 'wvl': wvl, 'efl': efl, 'fdx': fdx, 'shift': shift,
                    'form': form, 'return_more': more, 'variant': variant, 'pupil_kind': pk, 'sub': _subseed(rng)}

            def build(r_, pupil=pupil, ms=ms, mk=mk, dx=dx, wvl=wvl, efl=efl, fdx=fdx, shift=shift, more=more, variant=variant):
                masks = {'base': _mask(r_, ms, mk)}

                def first(v):
                    return v[0] if more else v

                def fwd(x, t='base'):
                    fpm = masks['B' if t == 'B' else 'base']
                    if form == 'function':
                        return first(P.to_fpm_and_back(x, dx, efl, wvl, fpm, fdx, shift=shift, return_more=more))
                    return first(P.Wavefront(x, wvl, dx).to_fpm_and_back(efl, fpm, fdx, shift=shift, return_more=more)).data

                def bwd(y, t='base'):
                    fpm = masks['B' if t == 'B' else 'base']
                    if form == 'function':
                        return first(P.to_fpm_and_back_backprop(y, dx, wvl, efl, fpm, fdx, shift=shift, return_more=more))
                    return first(P.Wavefront(y, wvl, dx).to_fpm_and_back_backprop(efl, fpm, fdx, shift=shift, return_more=more)).data
                c = Lin(fwd, bwd, pupil, pupil)
                if variant != 'mask-history':
                    return c.vary(row, variant, r_)
                masks['B'] = _mask(r_, ms, 'complex' if mk == 'real' else 'real')
                keep = {n: m.copy() for n, m in masks.items()}

                def masks_equal():
                    if not all(same(masks[n], keep[n]) for n in masks):
                        ctx.event(f'argument-modified-in-place:{row}:mask')
                return _mask_plan(c, masks_equal)
            yield cls, desc, build


def gen_babinet(ctx, rng):
    """Wavefront.babinet <-> Wavefront.babinet_backprop."""
    from prysm import propagation as P
    row = 'Wavefront.babinet_backprop'
    hi = ctx.pick(9, 28)
    classes = [(lk, mk, r) for lk in ('none', 'real', 'complex') for mk in ('real', 'complex') for r in ('same', 'other')]
    variants = LIN_VARIANTS + ('mask-history',)
    reps = ctx.pick(64, 520)
    big, long = ctx.pick(64, 144), ctx.pick(160, 600)
    k = -1
    for rep in range(reps + 1):
        for ci, (lk, mk, r) in enumerate(classes):
            k += 1
            if not ctx.mine(k):
                continue
            regime = rep % ctx.pick(12, 8) == 5
            pk = 'sq' if (k // 12) % 3 != 2 else 'nonsq'
            if regime:
                pk = ['big', 'sliver'][(rep // 12 + ci) % 2]
                pupil = _big_shape(rng, pk, big, long)
            else:
                pupil = SHAPES_SMALL[pk][k % len(SHAPES_SMALL[pk])] if rep == 0 else _rand_shape(rng, pk, 3, hi)
            if r == 'same':
                ms = pupil
            elif regime:
                ms = _big_shape(rng, ['sliver', 'big'][(rep // 12 + ci) % 2], big, long)
            else:
                while True:
                    ms = _rand_shape(rng, ['sq', 'nonsq'][int(rng.integers(2))], 3, hi + 4)
                    if ms != pupil:
                        break
            dx, wvl, efl, fdx = _focal_geometry(rng, pupil)
            variant = variants[(rep + ci + ci // 5) % len(variants)]
            if regime and variant == 'dtypes' and max(pupil + ms) > 400:
                variant = 'plain'
            # the Lyot stop kind is crossed with every mask class (so a Lyot-specific defect shows up under the
            # otherwise clean real-mask/same-shape key); it is recorded in the descriptor, not in the key
            cls = f'{mk}-mask/{r}-shape'
            desc = {'pupil': pupil, 'mask': ms, 'mask_kind': mk, 'lyot': lk, 'detail': f'lyot:{lk}', 'dx': dx, 'wvl': wvl, 'efl': efl, 'fdx': fdx,
                    'variant': variant, 'pupil_kind': pk, 'sub': _subseed(rng)}

            def build(r_, pupil=pupil, ms=ms, mk=mk, lk=lk, dx=dx, wvl=wvl, efl=efl, fdx=fdx, variant=variant):
                masks = {'base': _mask(r_, ms, mk)}
                lyots = {'base': None if lk == 'none' else _mask(r_, pupil, lk)}

                def fwd(x, t='base'):
                    n = 'B' if t == 'B' else 'base'
                    return P.Wavefront(x, wvl, dx).babinet(efl, lyots[n], masks[n], fdx).data

                def bwd(y, t='base'):
                    n = 'B' if t == 'B' else 'base'
                    return P.Wavefront(y, wvl, dx).babinet_backprop(efl, lyots[n], masks[n], fdx).data
                c = Lin(fwd, bwd, pupil, pupil)
                if variant != 'mask-history':
                    return c.vary(row, variant, r_)
                masks['B'] = _mask(r_, ms, 'complex' if mk == 'real' else 'real')
                lyots['B'] = _mask(r_, pupil, 'complex' if lk != 'complex' else 'real')
                keep = [(d_, n, np.array(d_[n], copy=True)) for d_ in (masks, lyots) for n in d_ if d_[n] is not None]

                def masks_equal():
                    if not all(same(d_[n], v) for d_, n, v in keep):
                        ctx.event(f'argument-modified-in-place:{row}:mask-or-lyot')
                return _mask_plan(c, masks_equal)
            yield cls, desc, build


VJP_VARIANTS = ('plain', 'dtypes', 'layouts', 'history')


def _vjp_shape(ctx, rng, i, hi):
    """Shape classes of the elementwise non-linear rows: sq / nonsq / line, and every 12th case a numeric regime."""
    if i % 12 == 7:
        kind = ['big', 'sliver'][(i // 12) % 2]
        return kind, _big_shape(rng, kind, ctx.pick(128, 400), ctx.pick(2048, 16384))
    kind = ['sq', 'nonsq', 'line'][i % 3]
    return kind, _rand_shape(rng, kind, 2, hi)


def gen_intensity(ctx, rng):
    """Wavefront.intensity <-> intensity_backprop."""
    from prysm import propagation as P
    row = 'Wavefront.intensity_backprop'
    n = ctx.share(ctx.pick(720, 9600))
    for i in range(n):
        kind, shape = _vjp_shape(ctx, rng, i, ctx.pick(10, 32))
        space = ['pupil', 'psf'][i % 2]
        variant = VJP_VARIANTS[(i // 3) % len(VJP_VARIANTS)]
        hist = ['reused-instance', 'copy', 'data-reassigned', 'after-pad-crop'][(i // 12) % 4] if variant == 'history' else None
        cls = f'{kind}/{space}' + (f'/history:{hist}' if hist else '')
        desc = {'shape': shape, 'space': space, 'variant': variant, 'sub': _subseed(rng)}

        def build(r_, shape=shape, space=space, variant=variant, hist=hist):
            E = crandn(r_, shape) * float(r_.uniform(0.1, 10))
            if variant == 'dtypes':
                E = f32_exact(E)

            def f(x):
                return np.asarray(P.Wavefront(x, 0.6, 0.1, space).intensity.data)

            def vjp(x, g):
                return P.Wavefront(x, 0.6, 0.1, space).intensity_backprop(g).data
            if hist is not None:
                w = P.Wavefront(E * 0.5 + 1, 0.6, 0.1, space)      # one instance for every call of the case
                w.intensity_backprop(np.ones(shape))
                w.intensity
                if hist == 'copy':
                    w = w.copy()
                if hist == 'after-pad-crop':
                    big = tuple(s + 4 for s in shape)
                    w.pad2d(None, out_shape=big)
                    w.intensity_backprop(np.ones(big))
                    w.crop(shape)

                def vjp(x, g):                                       # noqa: F811
                    if hist == 'data-reassigned' or not same(w.data, x):
                        w.data = x
                    w.intensity
                    return w.intensity_backprop(g).data
            twins = config_twins(row, f, vjp, 'c', 'r', variant) if variant in ('dtypes', 'layouts') else ()
            return Vjp(f, vjp, E, gkind='r', xkind='c', h=1e-2 * float(np.max(np.abs(E))), twins=twins, after32=variant == 'dtypes', warm=variant == 'dtypes' and bool(r_.integers(2)))
        yield cls, desc, build


def gen_phase(ctx, rng):
    """Wavefront.from_amp_and_phase <-> from_amp_and_phase_backprop_phase."""
    from prysm import propagation as P
    row = 'Wavefront.from_amp_and_phase_backprop_phase'
    n = ctx.share(ctx.pick(720, 9600))
    for i in range(n):
        kind, shape = _vjp_shape(ctx, rng, i, ctx.pick(10, 32))
        ak = ['real', 'complex', 'binary'][(i // 3) % 3]
        wvl = float(np.round(rng.uniform(0.4, 2.0), 3))
        rms = float(np.round(10 ** rng.uniform(0, 2.5), 2))          # nm
        variant = VJP_VARIANTS[(i // 9 + i) % len(VJP_VARIANTS)]
        hist = ['reused-instance', 'copy', 'data-reassigned'][(i // 4) % 3] if variant == 'history' else None
        cls = f'amp:{ak}' + (f'/history:{hist}' if hist else '')
        desc = {'shape': shape, 'amp': ak, 'wvl': wvl, 'phase_rms_nm': rms, 'variant': variant, 'shape_kind': kind,
                'sub': _subseed(rng)}

        def build(r_, shape=shape, ak=ak, wvl=wvl, rms=rms, variant=variant, hist=hist):
            amp = r_.uniform(0.1, 1.5, shape)
            if ak == 'complex':
                amp = amp * np.exp(1j * r_.uniform(-3, 3, shape))
            if ak == 'binary':
                amp = (r_.uniform(0, 1, shape) > 0.3).astype(float)
                if amp.sum() < 2:
                    amp[...] = 1.0
            ph = r_.standard_normal(shape) * rms
            if variant == 'dtypes':
                ph = f32_exact(ph)

            def f(p):
                return P.Wavefront.from_amp_and_phase(amp, p, wvl, 0.1).data

            def vjp(p, g):
                w = P.Wavefront.from_amp_and_phase(amp, p, wvl, 0.1)
                return w.from_amp_and_phase_backprop_phase(P.Wavefront(g, wvl, 0.1))
            if hist is not None:
                state = {}

                def vjp(p, g):                                        # noqa: F811
                    # the forward object is built once per phase array and then serves several upstream gradients
                    if state.get('p') is None or not same(state['p'], p):
                        if hist == 'data-reassigned':
                            # the object was made for another phase screen and used; then it is given the field of this one
                            w = P.Wavefront.from_amp_and_phase(amp, p * 0.5 + 3.0, wvl, 0.1)
                            w.from_amp_and_phase_backprop_phase(P.Wavefront(np.ones(shape) * (2 - 1j), wvl, 0.1))
                            w.data = P.Wavefront.from_amp_and_phase(amp, p, wvl, 0.1).data
                        else:
                            w = P.Wavefront.from_amp_and_phase(amp, p, wvl, 0.1)
                        w.from_amp_and_phase_backprop_phase(P.Wavefront(np.ones(shape) * (1 + 2j), wvl, 0.1))
                        w.intensity
                        state['w'] = w.copy() if hist == 'copy' else w
                        state['p'] = np.array(p, copy=True)
                        state['gw'] = P.Wavefront(np.zeros(shape, dtype=complex), wvl, 0.1)
                    state['gw'].data = g
                    return state['w'].from_amp_and_phase_backprop_phase(state['gw'])
            h = 1e-2 * wvl * 1e3 / (2 * np.pi)     # 0.01 rad of phase
            twins = config_twins(row, f, vjp, 'r', 'c', variant) if variant in ('dtypes', 'layouts') else ()
            return Vjp(f, vjp, ph, gkind='c', xkind='r', h=h, twins=twins, after32=variant == 'dtypes', warm=variant == 'dtypes' and bool(r_.integers(2)))
        yield cls, desc, build


def gen_modes(ctx, rng):
    """polynomials.sum_of_2d_modes <-> sum_of_2d_modes_backprop (linear in the weights)."""
    from prysm import polynomials
    row = 'sum_of_2d_modes_backprop'
    n = ctx.share(ctx.pick(720, 9600))
    for i in range(n):
        kind, shape = _vjp_shape(ctx, rng, i, ctx.pick(10, 32))
        regime = kind in ('big', 'sliver')
        K = [1, 2, 5, int(rng.integers(1, 12))][i % 4] if not regime else [1, 40, 150][(i // 12) % 3]
        if regime and K * shape[0] * shape[1] > ctx.pick(2, 3) * 10 ** 6:
            K = max(1, ctx.pick(2, 3) * 10 ** 6 // (shape[0] * shape[1]))
        as_list = (i % 2 == 0)
        gk = ['r', 'c'][(i // 2) % 2]
        variant = LIN_VARIANTS[(i // 4 + i // 20 + i) % len(LIN_VARIANTS)]
        mlay = ['C', 'F', 'strided'][(i // 5) % 3] if not (as_list or regime) else 'C'      # layout of the mode cube itself
        cls = f'{"list" if as_list else "array"}/databar:{"real" if gk == "r" else "complex"}'
        desc = {'shape': shape, 'K': K, 'modes_as_list': as_list, 'variant': variant, 'modes_layout': mlay, 'shape_kind': kind,
                'sub': _subseed(rng)}

        def build(r_, shape=shape, K=K, as_list=as_list, gk=gk, variant=variant, mlay=mlay):
            modes = relayout(r_.standard_normal((K,) + shape), mlay)
            mm = [m for m in modes] if as_list else modes
            keep = modes.copy()
            c = Lin(lambda w: polynomials.sum_of_2d_modes(mm, w), lambda g: polynomials.sum_of_2d_modes_backprop(mm, g),
                    (K,), shape, xkind='r', ykind=gk).vary(row, variant, r_)

            def modes_equal():
                if not same(modes, keep):
                    ctx.event(f'argument-modified-in-place:{row}:modes')
            c.plan.append(('do', modes_equal))
            return c
        yield cls, desc, build


def _dm_ifn(N, sigma, M=None):
    cy = np.arange(N) - N // 2
    cx = cy if M is None else np.arange(M) - M // 2
    x, y = np.meshgrid(cx, cy)
    return np.exp(-(x * x + y * y) / (2.0 * sigma * sigma))


DM_CONFIGS = [
    # (features, kwargs) -- smallest first; label = '+'.join(features) or 'plain'
    ((), {}),
    (('shift!=0',), {'shift': (1.5, -0.7)}),
    (('pad',), {'dN': 8}),
    (('crop',), {'dN': -8}),
    (('shift!=0', 'pad'), {'shift': (-2.25, 1.0), 'dN': 6}),
    (('shift!=0', 'crop'), {'shift': (0.5, 0.5), 'dN': -6}),
    (('ifn=odd',), {'odd': True}),
    (('rot!=0',), {'rot': (0, 10, 0)}),
    (('upsample!=1',), {'upsample': 0.5}),
    (('ifn=odd', 'shift!=0', 'pad'), {'odd': True, 'shift': (1.5, -0.7), 'dN': 8}),
    (('rot!=0', 'shift!=0', 'crop'), {'rot': (5, 0, 3), 'shift': (1.0, 2.0), 'dN': -8}),
    (('upsample!=1', 'pad'), {'upsample': 2, 'dN': 8}),
    # numeric regimes / geometry classes added by the hardening pass
    (('sep=per-axis',), {'sep2': True}),
    (('ifn=nonsq', 'pad'), {'nonsq': True, 'dN': 6}),
    (('ifn=nonsq', 'shift!=0', 'crop'), {'nonsq': True, 'shift': (0.75, -1.5), 'dN': -6}),
    (('big', 'shift!=0'), {'big': True, 'shift': (0.3, 2.2)}),
    (('big', 'upsample!=1', 'crop'), {'big': True, 'upsample': 1.5, 'dN': -10}),
    (('upsample=per-axis', 'pad'), {'upsample': (1.5, 2), 'dN': 4}),
]
DM_VARIANTS = ('plain', 'wfe-history', 'dtypes', 'copy-history', 'layouts', 'wfe-history', 'scales')


def gen_dm(ctx, rng):
    """DM.render <-> DM.render_backprop (render is linear in the actuator commands)."""
    from prysm.x.dm import DM
    row = 'DM.render_backprop'
    reps = ctx.pick(36, 360)
    k = -1
    for rep in range(reps):
        for ci, (feats, kw) in enumerate(DM_CONFIGS):
            k += 1
            if not ctx.mine(k):
                continue
            big = kw.get('big', False)
            if big and rep % ctx.pick(6, 3) != 0:
                continue
            odd = kw.get('odd', False)
            N = (24 if rep == 0 else int(rng.integers(12, ctx.pick(21, 36))) * 2) + (1 if odd else 0)
            Nact = [4, 3, 5][k % 3] if rep else 4
            sep = [3, 4][k % 2]
            if big:
                N = int(rng.integers(ctx.pick(48, 80), ctx.pick(65, 129))) * 2
                Nact = int(rng.integers(8, ctx.pick(13, 25)))
                sep = max(2, (N // 2 - 4) // (Nact // 2 + 1) - 1)
            if (Nact // 2 + 1) * sep + sep // 2 >= N // 2:
                sep = 3
            M = N + [8, -6][k % 2] if kw.get('nonsq') else N
            if kw.get('sep2'):
                sep = (sep, sep - 1) if k % 2 else (sep - 1, sep)
            shift = kw.get('shift', (0, 0))
            if rep and nz(shift):
                shift = tuple(float(v) for v in np.round(rng.uniform(-3, 3, 2), 2))
            rot = kw.get('rot', (0, 0, 0))
            if rep and nz(rot):
                rot = tuple(float(v) for v in np.round(rng.uniform(-12, 12, 3), 1))
            up = kw.get('upsample', 1)
            ups = up if isinstance(up, tuple) else (up, up)
            inter = (int(N * ups[0]), int(M * ups[1])) if up != 1 else (N, M)
            dN = kw.get('dN', 0)
            Nout = (inter[0] + dN, inter[1] + dN)
            Nout_arg = Nout[0] if (Nout[0] == Nout[1] and k % 2 == 0) else Nout
            sigma = float(np.round(rng.uniform(1.0, 2.0), 2))
            variant = DM_VARIANTS[(rep + ci) % len(DM_VARIANTS)]
            rotated = nz(rot)
            if rotated and variant in ('dtypes', 'layouts', 'scales'):
                variant = 'plain'        # the rotated adjoint is only approximate (ledger): one known key, not one per configuration
            wfe = bool((k + rep) % 2 == 0)
            cls = '+'.join(feats) if feats else 'plain'
            desc = {'N': (N, M), 'Nact': Nact, 'sep': sep, 'shift': shift, 'rot': rot, 'upsample': up, 'Nout': Nout, 'wfe': wfe,
                    'sigma': sigma, 'variant': variant, 'sub': _subseed(rng)}

            def build(r_, N=N, M=M, Nact=Nact, sep=sep, shift=shift, rot=rot, up=up, Nout=Nout, Nout_arg=Nout_arg, wfe=wfe,
                      sigma=sigma, variant=variant, rotated=rotated):
                ifn = _dm_ifn(N, sigma, M)

                def new_dm(dt='f64', prec=64):
                    with warnings.catch_warnings():
                        warnings.simplefilter('ignore')
                        with precision(prec):
                            return DM(cast(ifn, dt), Nout=Nout_arg, Nact=Nact, sep=sep, shift=shift, rot=rot, upsample=up)
                dms = {'orig': new_dm()}
                ashape = dms['orig'].actuators.shape
                try:     # the shape render() really returns (for a non-square grid it is not always Nout): the map's codomain
                    oshape = dms['orig'].render(wfe=wfe).shape
                except Exception:
                    oshape = Nout
                flag = {'base': wfe, 'after32': wfe}

                def which(t):
                    return dms['orig']

                def fwd(a, t='base'):
                    dm = which(t)
                    dm.update(a)
                    return dm.render(wfe=flag[t])

                def bwd(g, t='base'):
                    return which(t).render_backprop(g, wfe=flag[t])
                c = Lin(fwd, bwd, ashape, oshape, xkind='r', ykind='r', fwd_name='DM.render', tagged=True)

                def fresh():
                    d2 = new_dm()

                    def f2(a, t='base'):
                        d2.update(a)
                        return d2.render(wfe=flag[t])
                    return f2, (lambda g, t='base': d2.render_backprop(g, wfe=flag[t]))
                c.fresh = fresh
                if variant in ('plain', 'layouts', 'scales'):
                    c.vary(row, variant, r_)
                    for t in c.tags:
                        flag[t] = wfe
                    return c
                if variant == 'dtypes':
                    # a double-precision mirror and a single-precision one (built under precision 32 from a float32
                    # influence function); each is driven under both configured precisions with both gradient widths
                    c.vary(row, variant, r_)
                    for t in c.tags:
                        flag[t] = wfe
                    c.fresh = None

                    def which(t):                                     # noqa: F811
                        if c.tags[t].xdt == 'f32':
                            if 'narrow' not in dms:
                                dms['narrow'] = new_dm('f32', 32)
                            return dms['narrow']
                        return dms['orig']
                    c.fwd = lambda a, t: (which(t).update(a), which(t).render(wfe=flag[t]))[1]
                    c.bwd = lambda g, t: which(t).render_backprop(g, wfe=flag[t])
                    return c
                # histories on one mirror: the other value of the wfe flag, the first value again, then a copy made
                # after use driven with both flags.  A rotated mirror's adjoint is only approximate (ledger), so it is
                # judged against a brand-new mirror only.
                law = not rotated
                HK = 'C06/DM.render_backprop/history:'      # one key per kind of history, whatever the geometry class
                c.tags = {'base': Tag('base', law=law),
                          'flip': Tag('flip', map_id='B', key=HK + 'after-wfe-flip', mon='history', law=law),
                          'back': Tag('back', ref='base', key=HK + 'after-wfe-flip', mon='history', law=law),
                          'copyA': Tag('copyA', ref='base', key=HK + 'copy-after-use', mon='history', law=law),
                          'copyB': Tag('copyB', map_id='B', ref='flip', key=HK + 'copy-after-use', mon='history', law=law)}
                flag.update(base=wfe, flip=not wfe, back=wfe, copyA=wfe, copyB=not wfe)

                def which(t):                                         # noqa: F811
                    return dms['copy'] if t.startswith('copy') else dms['orig']
                c.fwd = lambda a, t: (which(t).update(a), which(t).render(wfe=flag[t]))[1]
                c.bwd = lambda g, t: which(t).render_backprop(g, wfe=flag[t])

                def make_copy():
                    dms['copy'] = dms['orig'].copy()
                if variant == 'wfe-history':
                    c.plan = [('f', 0, 'base'), ('b', 0, 'base'), ('f', 0, 'flip'), ('b', 0, 'flip'), ('b', 1, 'back'),
                              ('f', 1, 'back'), ('b', 1, 'flip'), ('do', make_copy), ('f', 0, 'copyB'), ('b', 0, 'copyB'),
                              ('b', 0, 'copyA')]
                else:
                    c.plan = [('f', 0, 'base'), ('b', 0, 'base'), ('do', make_copy), ('f', 1, 'copyA'), ('b', 1, 'copyA'),
                              ('b', 0, 'copyB'), ('f', 0, 'copyB'), ('b', 1, 'base'), ('f', 1, 'flip'), ('b', 0, 'flip')]
                return c
            yield cls, desc, build


def _softmax_shape(ctx, rng, i):
    """(nd, K, shape): 2- to 4-D inputs; every 10th case a numeric regime (many levels / very many variables / 5-D)."""
    if i % 10 == 9:
        j = (i // 10) % 4
        if j == 0:
            return 2, ctx.pick(96, 512), (int(rng.integers(2, 6)), ctx.pick(96, 512))
        if j == 1:
            return 2, 2, (ctx.pick(3000, 40000), 2)
        if j == 2:
            return 5, 3, (2, 1, 3, 2, 3)
        return 3, ctx.pick(40, 200), (1, ctx.pick(40, 120), ctx.pick(40, 200))
    nd = [2, 3, 4][i % 3]
    K = [2, 3, 5, int(rng.integers(2, 9))][i % 4]
    lead = tuple(int(v) for v in rng.integers(1, ctx.pick(5, 9), nd - 1))
    return nd, K, lead + (K,)


def _extreme_logits(r_, x0):
    """Class H: every variable (leading index) gets a common offset of magnitude 30 ... 800, either sign, and -- when there are
    more than two levels -- some of its levels are pushed 750 below the others, so that the soft-max is neither flat nor one-hot:
    the competitive levels keep an O(1) Jacobian while exp() of the raw logits would overflow / underflow."""
    off = r_.choice(np.array([-800.0, -300.0, -88.0, -37.0, 30.0, 100.0, 709.0, 800.0]), size=x0.shape[:-1] + (1,))
    x0 = x0 + off
    if x0.shape[-1] >= 3:
        drop = r_.uniform(size=x0.shape) < 0.3
        drop[..., :2] = False
        x0 = x0 - 750.0 * drop
    return x0


def gen_softmax(ctx, rng, which):
    """Softmax / GumbelSoftmax forward <-> backprop as vector-Jacobian products."""
    from prysm.x.optym.activation import Softmax, GumbelSoftmax
    row = which + '.backprop'
    n = ctx.share(ctx.pick(720, 9600))
    HIST = ['annealed', 'shape-switch', 'double-backprop', 'forward-twice', 'copy']
    for i in range(n):
        nd, K, shape = _softmax_shape(ctx, rng, i)
        regime = i % 10 == 9
        extreme = i % 10 == 4          # class H: logits of magnitude 30 ... 800 (both signs) with close competitors in every variable
        spread = float(np.round(rng.uniform(0.2, 2.0), 2))
        tau = float(np.round(10 ** rng.uniform(-0.7, 0.7), 3))
        epsk = ['default', 'given'][i % 2]
        seed = _subseed(rng)
        ndl = f'ndim={nd}' if nd < 5 else 'ndim>4'
        cls = ndl if which == 'Softmax' else f'{ndl}/eps:{epsk}'
        desc = {'shape': shape, 'spread': spread, 'sub': _subseed(rng)}
        variant = VJP_VARIANTS[(i // 4 + i) % len(VJP_VARIANTS)]
        hist = None
        if variant == 'history':
            hist = HIST[(i // 16) % len(HIST)]
            if which == 'Softmax' and hist == 'annealed':
                hist = 'shape-switch'
        # history: the node is built at another temperature, used once, then annealed to tau (the documented usage)
        anneal = hist == 'annealed'
        tau0 = float(np.round(tau * [4.0, 0.25, 10.0][(i // 3) % 3], 3)) if anneal else tau
        desc['variant'] = variant
        if which != 'Softmax':
            desc.update(tau=tau, eps=epsk, noise_seed=seed)
            if anneal:
                cls += '/annealed'
                desc.update(built_with_tau=tau0)
        if hist and not anneal:
            cls += '/history:' + hist
        if extreme:
            cls += '/special:extreme-logits'
            desc['extreme_logits'] = True

        def build(r_, shape=shape, spread=spread, tau=tau, epsk=epsk, seed=seed, tau0=tau0, anneal=anneal, variant=variant, hist=hist,
                  extreme=extreme):
            x0 = r_.standard_normal(shape) * spread
            if extreme:
                x0 = _extreme_logits(r_, x0)
            if variant == 'dtypes':
                x0 = f32_exact(x0)
            other = tuple(reversed(shape)) if len(set(shape)) > 1 else shape + (3,)
            if which == 'Softmax':
                node = Softmax()
                tt = 1.0
                hh = 1e-2
            else:
                node = GumbelSoftmax(tau=tau0, eps=(1e-9 if epsk == 'given' else None))
                tt = tau
                if anneal:
                    node.rng = np.random.default_rng(seed)
                    node.backprop(np.ones(shape) * node.forward(x0))   # one step at the old temperature
                    node.tau = tau0 * 0.5 + tau * 0.5                  # ... annealing goes in steps
                    node.backprop(np.ones(shape) * node.forward(x0))
                    node.tau = tau
                hh = 1e-2 * min(tau, 1.0)
            nodes = {'n': node}
            if hist == 'shape-switch':
                # the same node has served inputs of other shapes (and dtypes) before
                node.backprop(np.ones(other) * node.forward(r_.standard_normal(other)))
                node.backprop(np.ones((2, 2), dtype=np.float32) * node.forward(np.ones((2, 2), dtype=np.float32)))
            if hist == 'copy':
                node.backprop(np.ones(shape) * node.forward(x0 * 0.5 + 1))
                nodes['n'] = copy.deepcopy(node)

            def f(x):
                if which == 'Softmax':
                    return nodes['n'].forward(x)
                nodes['n'].rng = np.random.default_rng(seed)
                return nodes['n'].forward(x)

            def vjp(x, g):
                if hist == 'forward-twice':
                    f(x * 0.25 - 1.0)             # an earlier forward pass at another point: the last one counts
                if hist == 'shape-switch':
                    nodes['n'].backprop(np.ones(other) * nodes['n'].forward(np.zeros(other)))
                f(x)
                if hist == 'double-backprop':
                    nodes['n'].backprop(g * 3.0 - 1.0)    # several gradients are pulled back through one forward pass
                return nodes['n'].backprop(g)
            twins = config_twins(row, f, vjp, 'r', 'r', variant) if variant in ('dtypes', 'layouts') else ()
            return Vjp(f, vjp, x0, gkind='r', xkind='r', h=hh, twins=twins, after32=variant == 'dtypes', warm=variant == 'dtypes' and bool(r_.integers(2)),
                       twin_scale=lambda g, xb: float(np.max(np.abs(g))) / min(tt, 1.0))
        yield cls, desc, build


def gen_encoder(ctx, rng):
    """DiscreteEncoder forward <-> backprop, 2-D and N-D inputs, Softmax and GumbelSoftmax estimators."""
    from prysm.x.optym.activation import Softmax, GumbelSoftmax, DiscreteEncoder
    row = 'DiscreteEncoder.backprop'
    n = ctx.share(ctx.pick(720, 9600))
    HIST = ['annealed', 'shape-switch', 'double-backprop', 'forward-twice', 'copy', 'discretize-between']
    for i in range(n):
        regime = i % 10 == 9
        nd = [2, 3, 2, 4][i % 4]
        est = ['GumbelSoftmax', 'Softmax'][(i // 4) % 2]
        lk = ['int', 'gapped', 'arange'][(i // 2) % 3]
        K = [2, 3, 5, int(rng.integers(2, 8))][i % 4]
        lead = tuple(int(v) for v in rng.integers(2, ctx.pick(5, 9), nd - 1))
        if nd == 3 and i % 8 == 1:
            lead = (lead[0], K)        # the silent-broadcast trap: second dimension equal to the number of levels
        if regime:
            nd, K, shp = _softmax_shape(ctx, rng, i)
            lead = shp[:-1]
        shape = lead + (K,)
        tau = float(np.round(10 ** rng.uniform(-0.5, 0.5), 3))
        seed = _subseed(rng)
        if lk == 'int':
            levels = K
        elif lk == 'arange':
            levels = np.arange(K)
        else:
            levels = np.sort(rng.choice(np.arange(-5, 20 + K), K, replace=False))
        cls = 'ndim=2' if nd == 2 else 'ndim>2'
        variant = VJP_VARIANTS[(i // 8 + i) % len(VJP_VARIANTS)]
        hist = HIST[(i // 32) % len(HIST)] if variant == 'history' else None
        if hist == 'annealed' and est != 'GumbelSoftmax':
            hist = 'shape-switch'
        if hist == 'discretize-between' and est == 'GumbelSoftmax':
            # discretize() draws fresh noise through the shared estimator: after it the estimator no longer holds the state
            # of the forward pass, by design -- not a history the statement covers
            hist = 'forward-twice'
        desc = {'shape': shape, 'estimator': est, 'levels': levels if lk == 'int' else levels.tolist(), 'tau': tau,
                'noise_seed': seed, 'variant': variant, 'sub': _subseed(rng)}
        anneal = hist == 'annealed'
        tau0 = float(np.round(tau * [4.0, 0.2][(i // 3) % 2], 3)) if anneal else tau
        if anneal:
            cls += '/annealed'
            desc.update(built_with_tau=tau0)
        elif hist:
            cls += '/history:' + hist
        extreme = i % 10 == 4 and not regime
        if extreme:
            cls += '/special:extreme-logits'
            desc['extreme_logits'] = True
        lmax = float(K if lk == 'int' else np.max(np.abs(levels))) or 1.0

        def build(r_, shape=shape, est=est, levels=levels, tau=tau, seed=seed, tau0=tau0, anneal=anneal, variant=variant,
                  hist=hist, lmax=lmax, extreme=extreme):
            x0 = r_.standard_normal(shape)
            if extreme:
                x0 = _extreme_logits(r_, x0)
            if variant == 'dtypes':
                x0 = f32_exact(x0)
            e = GumbelSoftmax(tau=tau0) if est == 'GumbelSoftmax' else Softmax()
            node = DiscreteEncoder(e, levels)
            if anneal:
                e.rng = np.random.default_rng(seed)
                node.backprop(node.forward(x0))     # one step at the old temperature
                node.est.tau = tau                  # anneal through the encoder's estimator, as the docstring describes
            other = (3, shape[-1]) if len(shape) != 2 else (2, 3, shape[-1])
            if hist == 'shape-switch':
                node.backprop(node.forward(r_.standard_normal(other)))
            nodes = {'n': node}
            if hist == 'copy':
                node.backprop(node.forward(x0 * 0.5))
                nodes['n'] = copy.deepcopy(node)

            def f(x):
                nn = nodes['n']
                if est == 'GumbelSoftmax':
                    nn.est.rng = np.random.default_rng(seed)
                return nn.forward(x)

            def vjp(x, g):
                nn = nodes['n']
                if hist == 'forward-twice':
                    f(x * 0.5 + 0.25)
                if hist == 'shape-switch':
                    nn.backprop(nn.forward(np.zeros(other)))
                f(x)
                if hist == 'discretize-between':
                    nn.discretize(x)                # looking at the current discrete realisation of the same variables
                if hist == 'double-backprop':
                    nn.backprop(1.0 - g)
                return nn.backprop(g)
            tt = min(tau, 1.0) if est == 'GumbelSoftmax' else 1.0
            twins = config_twins(row, f, vjp, 'r', 'r', variant) if variant in ('dtypes', 'layouts') else ()
            return Vjp(f, vjp, x0, gkind='r', xkind='r', h=1e-2 * tt, twins=twins, after32=variant == 'dtypes', warm=variant == 'dtypes' and bool(r_.integers(2)),
                       twin_scale=lambda g, xb: float(np.max(np.abs(g))) * lmax / tt)
        yield cls, desc, build


ACT_VARIANTS = ('plain', 'narrow', 'layout', 'history')


def gen_activation(ctx, rng, name):
    """Tanh / Arctan / Softplus / Sigmoid with arbitrary (a, x0, y0): backprop(x) == d forward/dx, x not mutated."""
    from prysm.x.optym import activation
    klass = getattr(activation, name)
    R = name + '.backprop'
    n = ctx.share(ctx.pick(720, 9600))
    for i in range(n):
        pk = ['default', 'a', 'a,x0', 'a,x0,y0', 'x0,y0'][i % 5]
        given = pk.split(',')
        a = float(np.round(10 ** rng.uniform(-1, 0.7), 3)) if 'a' in given else 1
        x0 = float(np.round(rng.uniform(-2, 2), 3)) if 'x0' in given else 0
        y0 = float(np.round(rng.uniform(-2, 2), 3)) if 'y0' in given else 0
        shape = [(7,), (3, 4), (2, 3, 2), (1,)][i % 4]
        if i % 20 == 13:
            shape = [(ctx.pick(20000, 200000),), (1, ctx.pick(5000, 50000)), (ctx.pick(150, 500), ctx.pick(150, 400)), ()][(i // 20) % 4]
        cls = f'params:{pk}'
        variant = ACT_VARIANTS[(i // 5 + i) % len(ACT_VARIANTS)]
        desc = {'a': a, 'x0': x0, 'y0': y0, 'shape': shape, 'variant': variant, 'sub': _subseed(rng)}
        reparam = pk != 'default' and (i % 4 == 3 or variant == 'history')
        prec, xdt, lay, key, mon = 64, None, 'C', None, 'pointwise'
        if variant == 'narrow':
            prec, xdt = [(32, 'f32'), (64, 'f32'), (32, 'f64')][(i // 20) % 3]
            key, mon = f'C06/{R}/dtypes:{prec}/{xdt}', 'precision'
        if variant == 'layout' and len(shape) >= 1:
            lay = ALT_LAYOUTS[(i // 20) % 3]
            key, mon = f'C06/{R}/layout:{lay}', 'layout'
        scal = ['python', 'numpy', 'int'][(i // 7) % 3]        # container class of the node parameters
        desc['params_as'] = scal
        if reparam:
            cls += '/set-after-construction'

        def build(r_, a=a, x0=x0, y0=y0, shape=shape, reparam=reparam, variant=variant, prec=prec, xdt=xdt, lay=lay, key=key,
                  mon=mon, scal=scal):
            def cont(v):
                if scal == 'numpy':
                    return np.float64(v)
                if scal == 'int' and float(v) == int(v):
                    return int(v)
                return v
            if reparam:
                # history: built with other parameters, used once (also with another shape / dtype), then the public
                # attributes are re-assigned, twice
                node = klass(a=2.5 * a, x0=x0 - 1.0, y0=y0 + 0.5)
                node.backprop(node.forward(np.linspace(-1, 1, 5)))
                if variant == 'history':
                    node.backprop(node.forward(np.ones((2, 3), dtype=np.float32)))
                    node.a, node.x0, node.y0 = 0.5 * a, x0 + 2.0, y0 - 1.5
                    node.backprop(node.forward(np.linspace(-1, 1, 4)))
                    node = copy.deepcopy(node)
                node.a, node.x0, node.y0 = cont(a), cont(x0), cont(y0)
            else:
                node = klass(a=cont(a), x0=cont(x0), y0=cont(y0))
            x = x0 + r_.uniform(-6, 6, shape) / a
            if xdt == 'f32':
                x = f32_exact(x)
            return Pointwise(node, np.asarray(x), 3e-3 / a, prec=prec, xdt=xdt, lay=lay, key=key, mon=mon, dmax=abs(a))
        yield cls, desc, build


# class H (HARDENING3.md): pre-activations z = a (x - x0) at which a guard / asymptote / early exit is tempting.  exp overflows
# float64 above 709.78 and float32 above 88.7; 1 + e^z == e^z above ~36.7; e^-z is sub-normal above ~708 and zero above ~745.
# Established on /repo @ c2c1d7f: the four backprops are finite for every |z| <= 800 and every slope sign; Softplus.forward is inf
# for z > 709.78 (float32: z > 88.7) -- those elements are excluded and counted, every other forward is finite.
EXTREME_Z = (30.0, 33.3, 36.5, 37.0, 37.5, 40.0, 50.0, 88.0, 89.5, 100.0, 300.0, 700.0, 709.0, 709.7, 710.0, 744.0, 746.0, 800.0)
EXTREME_SLOPES = (-3.7, -1, 0.3, 2.5, -0.25, 1, 0.04, 11.0, -0.6, 1.7)


def gen_activation_extreme(ctx, rng, name):
    """Tanh / Arctan / Softplus / Sigmoid at |a (x - x0)| = 30 ... 800, both signs, slopes of either sign and |a| <> 1."""
    from prysm.x.optym import activation
    klass = getattr(activation, name)
    R = name + '.backprop'
    n = ctx.share(ctx.pick(40, 2400))
    for i_local in range(n):
        i = i_local * ctx.nshards + ctx.shard          # global enumeration index: the classes cycle across the shards
        if i < 2 * len(EXTREME_SLOPES):
            a = EXTREME_SLOPES[i % len(EXTREME_SLOPES)]
        else:
            a = float(np.round([-1, 1][int(rng.integers(2))] * 10 ** rng.uniform(-1.5, 1.2), 4))
        x0 = [0, 0.75, -2.5, float(np.round(rng.uniform(-3, 3), 3))][(i // 2) % 4]
        y0 = [0, -1.25, 0.5, float(np.round(rng.uniform(-3, 3), 3))][(i // 3) % 4]
        prec, xdt = [(64, None), (64, None), (64, None), (32, 'f32'), (64, None), (64, 'f32'), (64, None), (32, 'f64')][i % 8]
        sk = 'a<0' if a < 0 else ('a=1' if a == 1 else ('0<a<1' if a < 1 else 'a>1'))
        cls = f'special:extreme-preactivation/{sk}'
        key = None if xdt is None and prec == 64 else f'C06/{R}/dtypes:{prec}/{xdt}'
        desc = {'a': a, 'x0': x0, 'y0': y0, 'precision': prec, 'x_dtype': xdt or 'f64', 'variant': 'extreme', 'sub': _subseed(rng)}

        def build(r_, a=a, x0=x0, y0=y0, prec=prec, xdt=xdt, key=key, i=i):
            node = klass(a=a, x0=x0, y0=y0)
            zs = np.array(EXTREME_Z)
            if i >= len(EXTREME_SLOPES):
                zs = np.concatenate([zs[r_.uniform(size=zs.size) < 0.5], 10 ** r_.uniform(np.log10(30), np.log10(800), 6)])
            z = np.concatenate([zs, -zs, r_.uniform(-6, 6, 5)])
            z = z[r_.permutation(z.size)]
            x = x0 + z / a
            if xdt == 'f32' or prec == 32:
                x = f32_exact(x)
            if i % 5 == 4:
                x = x.reshape(-1, 1) if x.size % 2 else x.reshape(2, -1)
            c = Extreme(node, name, a, x0, y0, x, z, prec=prec, xdt=xdt)
            c.key = key
            return c
        yield cls, desc, build


def gen_cost(ctx, rng, name):
    """mean_square_error / negative_loglikelihood / bias_and_gain_invariant_error: gradient of the returned cost."""
    from prysm.x.optym import cost
    fn = getattr(cost, name)
    n = ctx.share(ctx.pick(720, 9600))
    VAR = ('plain', 'dtypes', 'layouts')
    for i in range(n):
        mk = ['unmasked', 'masked', 'mask-all-true'][i % 3]
        shape = [(5, 6), (12,), (4, 4), (3, 7), (2, 3, 4)][i % 5]
        big = i % 15 == 11
        if big:
            shape = [(ctx.pick(4096, 60000),), (ctx.pick(64, 256), ctx.pick(70, 300)), (1, ctx.pick(3000, 30000))][(i // 15) % 3]
        if mk != 'unmasked' and name == 'bias_and_gain_invariant_error' and len(shape) == 3:
            shape = (6, 4)
        cls = mk
        variant = VAR[(i // 3 + i) % 3]
        desc = {'shape': shape, 'mask': mk, 'variant': variant, 'sub': _subseed(rng)}
        # class G: model and data at tiny / huge magnitudes (metres vs nanometres); the oracle is the same and entirely relative
        mag = None
        if name != 'negative_loglikelihood' and i % 16 == 4:
            regs = COST_SCALES + ((('mixed', 1e-9, 1e9), ('mixed', 1e9, 1e-9)) if name == 'bias_and_gain_invariant_error' else ())
            mag = regs[(i // 16) % len(regs)]
            variant = 'plain'
            desc.update(variant=variant, magnitude=[mag[1], mag[2]])
        if name == 'negative_loglikelihood':
            tk = ['array', 'scalar'][(i // 3) % 2]
            cls = f'{mk}/target:{tk}'
            desc['target'] = tk

        if mag is not None:
            cls += '/scale:' + mag[0]

        def build(r_, shape=shape, mk=mk, desc=desc, variant=variant, big=big, mag=mag):
            mask = None
            if mk == 'masked':
                mask = r_.uniform(0, 1, shape) > 0.35
                if mask.sum() < 3:
                    mask = np.ones(shape, dtype=bool)
                    mask.flat[0] = False
            elif mk == 'mask-all-true':
                mask = np.ones(shape, dtype=bool)
            scalar_target = False
            if name == 'negative_loglikelihood':
                M = r_.uniform(0.05, 0.95, shape)
                scalar_target = desc['target'] != 'array'
                D = r_.uniform(0.05, 0.95, shape) if not scalar_target else float(r_.uniform(0.05, 0.95))
                h = 5e-4
            else:
                M = r_.uniform(0.1, 1.1, shape) * float(r_.uniform(0.5, 20))
                D = r_.uniform(0.1, 1.1, shape) * float(r_.uniform(0.5, 20))
                if mag is not None:
                    M, D = M * mag[1], D * mag[2]
                h = 3e-3 * float(np.max(M))
            if variant == 'dtypes':
                M = f32_exact(M)
                D = D if scalar_target else f32_exact(D)
            twins = []
            if variant == 'dtypes':
                for prec, ml, dl in DTYPE_SCHEDULE:
                    mdt, ddt = _dt('r', ml), _dt('r', dl)
                    Dt = D if scalar_target else cast(D, ddt)

                    def ft(m, prec=prec, mdt=mdt, Dt=Dt):
                        with precision(prec):
                            return fn(cast(m, mdt), Dt, mask)
                    twins.append(Twin(f'{prec}/{mdt}/{ddt}', ft, None, f'C06/{name}/dtypes:{prec}/{mdt}/{ddt}', RT_F32_NL, 'precision'))
            if variant == 'layouts':
                for lay in ALT_LAYOUTS:
                    Dl = D if scalar_target else relayout(D, lay)
                    ml_ = None if mask is None else relayout(mask, lay)

                    def fl(m, lay=lay, Dl=Dl, ml_=ml_):
                        return fn(relayout(m, lay), Dl, ml_)
                    twins.append(Twin('layout:' + lay, fl, None, f'C06/{name}/layout:{lay}', RT_LIN, 'layout'))
            return Cost(lambda m: fn(m, D, mask), M, h, twins=twins, big=big, mag=None if mag is None else mag[0])
        yield cls, desc, build


def gen_spatial(ctx, rng, axis):
    """SpatialGradient2D.forward_x/y <-> backprop_x/y."""
    from prysm.x.optym.operators import SpatialGradient2D
    row = 'SpatialGradient2D.backprop_' + axis
    op = SpatialGradient2D()          # one operator instance serves every case of the row (shape after shape)
    n = ctx.share(ctx.pick(720, 9600))
    shapes0 = [(3, 3), (4, 4), (3, 4), (3, 5), (5, 3), (6, 4), (4, 7), (5, 8), (1, 5), (5, 1), (2, 2), (2, 6), (6, 2)]
    for i in range(n):
        if i < len(shapes0) and ctx.shard == 0:
            shape = shapes0[i]
        elif i % 12 == 7:
            shape = _big_shape(rng, ['big', 'sliver'][(i // 12) % 2], ctx.pick(160, 600), ctx.pick(2048, 20000))
        else:
            kind = ['sq', 'wide', 'tall'][i % 3]
            if kind == 'sq':
                shape = _rand_shape(rng, 'sq', 3, ctx.pick(10, 32))
            else:
                a, b = sorted(_rand_shape(rng, 'nonsq', 3, ctx.pick(10, 32)))
                shape = (a, b) if kind == 'wide' else (b, a)
        kind = 'square' if shape[0] == shape[1] else ('wide' if shape[1] > shape[0] else 'tall')
        xk = ['r', 'c'][i % 2]
        variant = LIN_VARIANTS[(i // 2 + i // 10) % len(LIN_VARIANTS)]
        cls = kind
        desc = {'shape': shape, 'x': xk, 'variant': variant, 'sub': _subseed(rng)}

        def build(r_, shape=shape, xk=xk, variant=variant):
            c = Lin(getattr(op, 'forward_' + axis), getattr(op, 'backprop_' + axis), shape, shape, xkind=xk, ykind=xk,
                    fwd_name='SpatialGradient2D.forward_' + axis).vary(row, variant, r_)

            def fresh():
                o2 = SpatialGradient2D()
                return getattr(o2, 'forward_' + axis), getattr(o2, 'backprop_' + axis)
            c.fresh = fresh
            return c
        yield cls, desc, build


def gen_f32(ctx, rng):
    """single-precision slice of the mdft / fixed-sampling adjoints: precision 32, complex64 data (loose tolerance)."""
    from prysm.fttools import mdft
    from prysm import propagation as P
    n = ctx.share(ctx.pick(96, 2400))
    for i in range(n):
        sa = _rand_shape(rng, ['sq', 'nonsq'][i % 2], 3, ctx.pick(12, 40))
        sb = _rand_shape(rng, ['sq', 'nonsq'][(i // 2) % 2], 3, ctx.pick(12, 40))
        Q = _Q_of(rng, ['scalar', 'pair'][i % 2])
        shift = tuple(float(v) for v in np.round(rng.uniform(-2, 2, 2), 5))   # fresh key => bases built in float32
        which = ['dft2', 'idft2', 'focus'][i % 3]
        cls = which
        desc = {'in': sa, 'out': sb, 'Q': Q, 'shift': shift, 'sub': _subseed(rng)}

        def build(r_, sa=sa, sb=sb, Q=Q, shift=shift, which=which):
            if which == 'focus':
                c = Lin(lambda x: P.focus_fixed_sampling(x, 0.1, 100., 0.5, 20., sb, shift=shift),
                        lambda y: P.focus_fixed_sampling_backprop(y, 0.1, 100., 0.5, 20., sa, shift=shift), sa, sb)
            else:
                f, b = getattr(mdft, which), getattr(mdft, which + '_backprop')
                c = Lin(lambda x: f(x, Q, sb, shift), lambda y: b(y, Q, sa, shift), sa, sb)
            c.tags = {'base': Tag('base', prec=32, xdt='c64', ydt='c64', rtol=RT_F32)}
            return c
        yield cls, desc, build


# ============================================================================================ hardening pass 2: argument forms
# Class E (HARDENING2.md).  Every companion is called with each argument in every form the current tree accepts as the same
# mathematical input (pair / scalar / sample-count forms of vp.propforms; established by running /repo @ faa8443, see FORMS_NOTE),
# the other arguments canonical; the adjoint law is judged between the companion in that form and the forward in canonical form
# *and* in the same form, on the same argument objects (a container the routine rescales in place breaks the second pairing),
# and once more on a repeat call.  Keys: C06/<companion>/form:<argument>=<form>.
FORMS_NOTE = ('forms out of domain on the current tree (raise, or mean something else): a bare scalar shift for the fixed-sampling / '
              'mask-and-back wrappers (they index shift[0], shift[1]); cost masks that are not boolean arrays (integer arrays are taken '
              'as indices, float / complex raise); unsigned-integer targets of negative_loglikelihood (numpy unsigned arithmetic); '
              'integer mode cubes (sum_of_2d_modes truncates); integer-typed inputs of Arctan.backprop (it scales x - x0 in place by a float: '
              'UFuncTypeError when x0 is an int) and unsigned-integer inputs of the other activations (python-int constants do not fit: '
              'OverflowError); lists for fields, upstream gradients and activation inputs; Wavefront / '
              'RichData objects for intensity_backprop; numpy integers for the Nout / Nact / sep arguments of DM (isinstance(.., int) fails, the '
              'scalar is then indexed)')


def _pf():
    from .. import propforms
    return propforms


def _form_lin(row, fwd_of, bwd_of, xshape, yshape, forms, xkind='c', ykind='c', pre=None, exact32=False, forward_first=False):
    """A tagged linear case: tag 'base' = canonical call, one tag per (label, single) in `forms`.  fwd_of(label), bwd_of(label)
    return the callables of that form (label 'base' for the canonical one); `pre`: hostile call made before the forms."""
    R = KEY_ROUTINE.get(row, row)
    tags = {'base': Tag('base')}
    plan = [('f', 0, 'base'), ('b', 0, 'base')]
    if pre is not None:
        plan.append(('do', pre))
    for label, single in forms:
        tags[label] = Tag(label, ref='base', key=f'C06/{R}/form:{label}', mon='form', rtol=RT_F32 if single else RT_LIN)
        plan += [('f', 0, label), ('b', 0, label), ('b', 1, label)] if forward_first else [('b', 0, label), ('f', 0, label), ('b', 1, label)]
    cache = {}

    def fwd(x, t):
        if ('f', t) not in cache:
            cache[('f', t)] = fwd_of(t)
        return cache[('f', t)](x)

    def bwd(y, t):
        if ('b', t) not in cache:
            cache[('b', t)] = bwd_of(t)
        return cache[('b', t)](y)
    return Lin(fwd, bwd, xshape, yshape, xkind=xkind, ykind=ykind, plan=plan, tags=tags, tagged=True, exact32=exact32)


def _arg_forms(role, value):
    """[(label, factory, single)] of one argument value."""
    pf = _pf()
    if role == 'pair':
        return pf.pair_forms(value)
    if role == 'samples':
        return pf.samples_forms(value)
    return pf.scalar_forms(value)


FORM_VALUE_CLASSES = ['generic', 'integral', 'equal', 'single-axis-x', 'single-axis-y', 'zero']


def _pair_value(rng, cls, unit=1.0):
    """A pair whose members are exactly representable in float32 (so that the float32 forms exist)."""
    q = lambda v: float(np.round(v * 8) / 8) * unit      # noqa: E731
    if cls == 'generic':
        return (q(rng.uniform(0.5, 3)) or unit, -q(rng.uniform(0.25, 3)) or -unit)
    if cls == 'integral':
        return (float(rng.integers(1, 4)) * unit, -float(rng.integers(1, 4)) * unit)
    if cls == 'equal':
        v = q(rng.uniform(0.5, 3)) or unit
        return (v, v)
    if cls == 'single-axis-x':
        return (q(rng.uniform(0.5, 3)) or unit, 0.0)
    if cls == 'single-axis-y':
        return (0.0, q(rng.uniform(0.5, 3)) or unit)
    return (0.0, 0.0)


def gen_forms_mdft(ctx, rng, which):
    from prysm.fttools import mdft
    row = 'mdft.' + which + '_backprop'
    sname = 'samples_in' if which == 'dft2' else 'samples_out'
    k = -1
    for rep in range(ctx.pick(1, 12)):
        for arg in ('Q', sname, 'shift', 'call'):
            for vc in FORM_VALUE_CLASSES:
                k += 1
                if not ctx.mine(k):
                    continue
                if arg in (sname, 'call') and vc not in ('generic', 'equal', 'zero'):
                    continue
                sq = vc == 'equal'
                sa = (5, 5) if sq else _rand_shape(rng, 'nonsq', 3, 9)
                sb = (6, 6) if sq else _rand_shape(rng, ['sq', 'nonsq'][int(rng.integers(2))], 3, 9)
                Qv = _pair_value(rng, vc if arg == 'Q' and vc != 'zero' and not vc.startswith('single') else 'generic')
                Qv = (abs(Qv[0]) + 0.5, abs(Qv[1]) + 0.5)
                if arg == 'Q' and vc == 'equal':
                    Qv = (Qv[0], Qv[0])
                if arg == 'Q' and vc == 'integral':
                    Qv = (float(int(Qv[0]) + 1), float(int(Qv[1]) + 1))
                sh = _pair_value(rng, vc if arg in ('shift', 'call') else ['generic', 'zero', 'single-axis-x'][k % 3])
                xk = 'r' if k % 5 == 0 else 'c'
                cls = f'form:{arg}'
                desc = {'in': sa, 'out': sb, 'Q': Qv, 'shift': sh, 'argument': arg, 'values': vc, 'x': xk, 'variant': 'forms', 'sub': _subseed(rng)}

                def build(r_, sa=sa, sb=sb, Qv=Qv, sh=sh, arg=arg, xk=xk):
                    fw, bw = getattr(mdft, which), getattr(mdft, which + '_backprop')
                    canon = {'Q': Qv, 'so': sb, 'si': sa, 'shift': sh}
                    forms, table = [], {'base': canon}
                    if arg == 'call':
                        styles = ['keywords', 'positional'] + (['shift-omitted'] if not nz(sh) else [])
                        forms = [(f'call={s}', False) for s in styles]
                        for s in styles:
                            table[f'call={s}'] = dict(canon, style=s)
                    else:
                        role = {'Q': 'pair', 'shift': 'pair'}.get(arg, 'samples')
                        val = {'Q': Qv, 'shift': sh}.get(arg, None)
                        for j, side in enumerate(('so', 'si') if role == 'samples' else (arg,)):
                            v = canon[side] if role == 'samples' else val
                            for label, make, single in _arg_forms(role, v):
                                lab = f'{arg}={label}'
                                forms.append((lab, single)) if j == 0 else None
                                table.setdefault(lab, dict(canon))
                                table[lab][side] = make()
                        forms = [(l_, s_) for l_, s_ in forms if all(k_ in table[l_] for k_ in canon)]
                        if role == 'samples':     # the forward's and the backprop's sample-count arguments take the form together
                            forms = [(l_, s_) for l_, s_ in forms if l_.split('=', 1)[1] in
                                     {lb for lb, _, _ in _arg_forms('samples', sb)} & {lb for lb, _, _ in _arg_forms('samples', sa)}]

                    def fwd_of(t):
                        a = table[t]
                        st = a.get('style')
                        if st == 'keywords':
                            return lambda x: fw(ary=x, Q=a['Q'], samples_out=a['so'], shift=a['shift'])
                        if st == 'shift-omitted':
                            return lambda x: fw(x, a['Q'], a['so'])
                        return lambda x: fw(x, a['Q'], a['so'], a['shift'])

                    def bwd_of(t):
                        a = table[t]
                        st = a.get('style')
                        if st == 'keywords':
                            return lambda y: bw(fbar=y, Q=a['Q'], shift=a['shift'], **{sname: a['si']})
                        if st == 'shift-omitted':
                            return lambda y: bw(y, a['Q'], a['si'])
                        return lambda y: bw(y, a['Q'], a['si'], a['shift'])

                    def hostile():      # other explicit values right before the forms (a default resolved from state shows here)
                        bw(np.ones(sb, dtype=complex), 1.25, sa, np.array([1.5, -0.75]))
                        fw(np.ones(sa, dtype=complex), 1.25, sb, [0.5, 0.25])
                    if not forms:
                        return None
                    return _form_lin(row, fwd_of, bwd_of, sa, sb, forms, xkind=xk, pre=hostile)
                yield cls, desc, build


def _geom_f32(rng, pupil):
    """Physical parameters exactly representable in float32, Q in [1, 4]."""
    dx = [0.125, 0.25, 0.0625, 0.5][int(rng.integers(4))]
    wvl = [0.5, 0.75, 1.0, 1.5][int(rng.integers(4))]
    efl = float(rng.integers(4, 40)) * 8.0
    Q = float(rng.uniform(1, 4))
    fdx = wvl * efl / (pupil[0] * dx) / Q
    fdx = float(np.float32(np.round(fdx * 64) / 64)) or 1 / 64
    return dx, wvl, efl, fdx


def gen_forms_ffs(ctx, rng, which, form):
    from prysm import propagation as P
    row = {('focus', 'function'): 'focus_fixed_sampling_backprop', ('focus', 'Wavefront'): 'Wavefront.focus_fixed_sampling_backprop',
           ('unfocus', 'function'): 'unfocus_fixed_sampling_backprop'}[(which, form)]
    args = ['input_dx', 'prop_dist', 'wavelength', 'output_dx', 'output_samples', 'shift', 'call']
    k = -1
    for rep in range(ctx.pick(1, 12)):
        for arg in args:
            for vc in FORM_VALUE_CLASSES:
                k += 1
                if not ctx.mine(k):
                    continue
                if arg not in ('shift', 'call') and vc not in ('generic', 'equal'):
                    continue
                if arg == 'call' and vc not in ('generic', 'zero', 'single-axis-x'):
                    continue
                sq = vc == 'equal' or k % 3 == 0
                pupil = (5, 5) if sq else _rand_shape(rng, 'nonsq', 3, 9)
                focal = (6, 6) if sq else _rand_shape(rng, ['sq', 'nonsq'][int(rng.integers(2))], 3, 10)
                dx, wvl, efl, fdx = _geom_f32(rng, pupil)
                unit = fdx if which == 'focus' else dx                 # shift is in the units of output_dx (never 1 here)
                sh = _pair_value(rng, vc if arg in ('shift', 'call') else ['generic', 'single-axis-y', 'zero'][k % 3], unit=unit)
                cls = f'form:{arg}'
                desc = {'pupil': pupil, 'focal': focal, 'dx': dx, 'wvl': wvl, 'efl': efl, 'fdx': fdx, 'shift': sh, 'argument': arg,
                        'values': vc, 'form': form, 'variant': 'forms', 'sub': _subseed(rng)}

                def build(r_, pupil=pupil, focal=focal, dx=dx, wvl=wvl, efl=efl, fdx=fdx, sh=sh, arg=arg):
                    # forward side names: (input_dx, prop_dist, wavelength, output_dx, output_samples); the backprop gets the same
                    # physical arguments and the shape of the forward input as output_samples
                    if which == 'focus':
                        canon = {'input_dx': dx, 'prop_dist': efl, 'wavelength': wvl, 'output_dx': fdx, 'fs': focal, 'bs': pupil, 'shift': sh}
                        xs, ys = pupil, focal
                    else:
                        canon = {'input_dx': fdx, 'prop_dist': efl, 'wavelength': wvl, 'output_dx': dx, 'fs': pupil, 'bs': focal, 'shift': sh}
                        xs, ys = focal, pupil
                    table, forms = {'base': canon}, []
                    if arg == 'call':
                        styles = ['keywords', 'positional', 'method-explicit'] + (['shift-omitted'] if not nz(sh) else [])
                        forms = [(f'call={s}', False) for s in styles]
                        for s in styles:
                            table[f'call={s}'] = dict(canon, style=s)
                    elif arg == 'output_samples':
                        common = {lb for lb, _, _ in _arg_forms('samples', canon['fs'])} & {lb for lb, _, _ in _arg_forms('samples', canon['bs'])}
                        for side in ('fs', 'bs'):
                            for label, make, single in _arg_forms('samples', canon[side]):
                                if label in common:
                                    lab = f'{arg}={label}'
                                    table.setdefault(lab, dict(canon))[side] = make()
                                    if side == 'fs':
                                        forms.append((lab, single))
                    else:
                        role = 'pair' if arg == 'shift' else 'scalar'
                        for label, make, single in _arg_forms(role, canon[arg]):
                            if role == 'pair' and 'scalar' in label and 'scalars' not in label:
                                continue          # a bare scalar is not a shift for these wrappers (FORMS_NOTE)
                            lab = f'{arg}={label}'
                            table[lab] = dict(canon, **{arg: make()})
                            forms.append((lab, single))

                    def call(fn, arr, a, samples, wf_space=None):
                        st = a.get('style')
                        if form == 'Wavefront':
                            w = P.Wavefront(arr, a['wavelength'], a['input_dx'], wf_space)
                            m = getattr(w, fn)
                            if st == 'keywords':
                                return m(efl=a['prop_dist'], dx=a['output_dx'], samples=samples, shift=a['shift'], method='mdft').data
                            if st == 'positional':
                                return m(a['prop_dist'], a['output_dx'], samples, a['shift'], 'mdft').data
                            if st == 'shift-omitted':
                                return m(a['prop_dist'], a['output_dx'], samples).data
                            if st == 'method-explicit':
                                return m(a['prop_dist'], a['output_dx'], samples, shift=a['shift'], method='mdft').data
                            return m(a['prop_dist'], a['output_dx'], samples, shift=a['shift']).data
                        f = getattr(P, fn)
                        if st == 'keywords':
                            return f(wavefunction=arr, input_dx=a['input_dx'], prop_dist=a['prop_dist'], wavelength=a['wavelength'],
                                     output_dx=a['output_dx'], output_samples=samples, shift=a['shift'], method='mdft')
                        if st == 'positional':
                            return f(arr, a['input_dx'], a['prop_dist'], a['wavelength'], a['output_dx'], samples, a['shift'], 'mdft')
                        if st == 'shift-omitted':
                            return f(arr, a['input_dx'], a['prop_dist'], a['wavelength'], a['output_dx'], samples)
                        if st == 'method-explicit':
                            return f(arr, a['input_dx'], a['prop_dist'], a['wavelength'], a['output_dx'], samples, shift=a['shift'], method='mdft')
                        return f(arr, a['input_dx'], a['prop_dist'], a['wavelength'], a['output_dx'], samples, shift=a['shift'])
                    fname = which + '_fixed_sampling'

                    def fwd_of(t):
                        a = table[t]
                        return lambda x: call(fname, x, a, a['fs'], 'pupil' if which == 'focus' else 'psf')

                    def bwd_of(t):
                        a = table[t]
                        if form == 'Wavefront':
                            # the gradient lives in the output plane of the forward: its Wavefront carries output_dx, and the method
                            # is given the forward's input spacing
                            b = dict(a, input_dx=a['output_dx'], output_dx=a['input_dx'])
                            return lambda y: call(fname + '_backprop', y, b, a['bs'], 'psf' if which == 'focus' else 'pupil')
                        return lambda y: call(fname + '_backprop', y, a, a['bs'])

                    def hostile():
                        a = canon
                        getattr(P, fname)(np.ones(xs, dtype=complex), a['input_dx'], a['prop_dist'], a['wavelength'], a['output_dx'], a['fs'],
                                          shift=np.array([1.5, -0.5]) * a['output_dx'], method='czt')
                        getattr(P, fname + '_backprop')(np.ones(ys, dtype=complex), a['input_dx'], a['prop_dist'], a['wavelength'], a['output_dx'],
                                                        a['bs'], shift=[0.5 * a['output_dx'], 2 * a['output_dx']])
                    if not forms:
                        return None
                    return _form_lin(row, fwd_of, bwd_of, xs, ys, forms, pre=hostile)
                yield cls, desc, build


MASK_FORMS = ['bool', 'uint8', 'int32', 'int64', 'float32', 'float64', 'complex64', 'complex128']


def _mask_forms(m):
    """[(label, array, single)] of one mask: every dtype that holds its values exactly (float32 / complex64 forms carry rounded
    values and are judged at single-precision tolerance against the canonical map of the *rounded* mask, so they are only offered
    for masks that are exact in float32)."""
    out = []
    binary = m.dtype.kind != 'c' and bool(np.all((m == 0) | (m == 1)))
    for lab in MASK_FORMS:
        dt = np.dtype(lab)
        if dt.kind in 'biu' and not binary:
            continue
        if dt.kind == 'f' and m.dtype.kind == 'c':
            continue
        if dt == m.dtype:
            continue
        out.append((lab, m.astype(dt), False))
    return out


def gen_forms_tfb(ctx, rng, form):
    from prysm import propagation as P
    row = 'to_fpm_and_back_backprop' if form == 'function' else 'Wavefront.to_fpm_and_back_backprop'
    args = ['dx', 'wavelength', 'efl', 'fpm_dx', 'shift', 'fpm', 'call']
    k = -1
    for rep in range(ctx.pick(1, 12)):
        for arg in args:
            for vc in FORM_VALUE_CLASSES:
                k += 1
                if not ctx.mine(k):
                    continue
                if arg not in ('shift', 'call') and vc not in ('generic', 'equal', 'zero'):
                    continue
                if arg == 'call' and vc not in ('generic', 'zero'):
                    continue
                pupil = (5, 5) if k % 2 else _rand_shape(rng, 'nonsq', 3, 8)
                ms = pupil if k % 4 < 2 else _rand_shape(rng, ['sq', 'nonsq'][int(rng.integers(2))], 3, 9)
                dx, wvl, efl, fdx = _geom_f32(rng, pupil)
                sh = _pair_value(rng, vc if arg in ('shift', 'call') else ['generic', 'single-axis-x', 'zero'][k % 3], unit=fdx)
                mk = ['binary', 'grey', 'complex'][(k // 7) % 3]
                cls = f'form:{arg}'
                desc = {'pupil': pupil, 'mask': ms, 'mask_kind': mk, 'dx': dx, 'wvl': wvl, 'efl': efl, 'fdx': fdx, 'shift': sh, 'argument': arg,
                        'values': vc, 'form': form, 'variant': 'forms', 'sub': _subseed(rng)}

                def build(r_, pupil=pupil, ms=ms, mk=mk, dx=dx, wvl=wvl, efl=efl, fdx=fdx, sh=sh, arg=arg):
                    m = r_.uniform(0, 1, ms)
                    if mk == 'binary':
                        m = (m > 0.4).astype(np.float64)
                        if m.sum() < 2:
                            m[...] = 1.0
                    elif mk == 'grey':
                        m = f32_exact(m)
                    else:
                        m = f32_exact(m * np.exp(1j * r_.uniform(-3, 3, ms)))
                    canon = {'dx': dx, 'wavelength': wvl, 'efl': efl, 'fpm': m, 'fpm_dx': fdx, 'shift': sh}
                    table, forms = {'base': canon}, []
                    if arg == 'call':
                        styles = ['keywords', 'positional', 'method-explicit', 'return_more=True', 'return_more=1'] + \
                                 (['shift-omitted'] if not nz(sh) else [])
                        for s in styles:
                            table[f'call={s}'] = dict(canon, style=s)
                            forms.append((f'call={s}', False))
                    elif arg == 'fpm':
                        for lab, arr, single in _mask_forms(m):
                            narrow = lab in ('float32', 'complex64')
                            table[f'fpm={lab}'] = dict(canon, fpm=arr)
                            forms.append((f'fpm={lab}', narrow))
                        for lab, arr in (('F-order', np.asfortranarray(m)), ('read-only', None)):
                            if arr is None:
                                arr = m.copy()
                                arr.setflags(write=False)
                            table[f'fpm={lab}'] = dict(canon, fpm=arr)
                            forms.append((f'fpm={lab}', False))
                    else:
                        role = 'pair' if arg == 'shift' else 'scalar'
                        for label, make, single in _arg_forms(role, canon[arg]):
                            if role == 'pair' and 'scalar' in label and 'scalars' not in label:
                                continue
                            table[f'{arg}={label}'] = dict(canon, **{arg: make()})
                            forms.append((f'{arg}={label}', single))

                    def first(v, a):
                        return v[0] if str(a.get('style', '')).startswith('return_more') else v

                    def fwd_of(t):
                        a = table[t]
                        st = a.get('style')
                        more = {'return_more=True': True, 'return_more=1': 1}.get(st, False)
                        if form == 'function':
                            if st == 'keywords':
                                return lambda x: P.to_fpm_and_back(wavefunction=x, dx=a['dx'], efl=a['efl'], wavelength=a['wavelength'], fpm=a['fpm'],
                                                                   fpm_dx=a['fpm_dx'], shift=a['shift'], method='mdft', return_more=False)
                            if st == 'positional':
                                return lambda x: P.to_fpm_and_back(x, a['dx'], a['efl'], a['wavelength'], a['fpm'], a['fpm_dx'], a['shift'], 'mdft', False)
                            if st == 'shift-omitted':
                                return lambda x: P.to_fpm_and_back(x, a['dx'], a['efl'], a['wavelength'], a['fpm'], a['fpm_dx'])
                            return lambda x: first(P.to_fpm_and_back(x, a['dx'], a['efl'], a['wavelength'], a['fpm'], a['fpm_dx'], shift=a['shift'],
                                                                     return_more=more, **({'method': 'mdft'} if st == 'method-explicit' else {})), a)

                        def wf(x):
                            w = P.Wavefront(x, a['wavelength'], a['dx'])
                            if st == 'keywords':
                                return w.to_fpm_and_back(efl=a['efl'], fpm=a['fpm'], fpm_dx=a['fpm_dx'], method='mdft', shift=a['shift'], return_more=False).data
                            if st == 'positional':
                                return w.to_fpm_and_back(a['efl'], a['fpm'], a['fpm_dx'], 'mdft', a['shift'], False).data
                            if st == 'shift-omitted':
                                return w.to_fpm_and_back(a['efl'], a['fpm'], a['fpm_dx']).data
                            return first(w.to_fpm_and_back(a['efl'], a['fpm'], a['fpm_dx'], shift=a['shift'], return_more=more), a).data
                        return wf

                    def bwd_of(t):
                        a = table[t]
                        st = a.get('style')
                        more = {'return_more=True': True, 'return_more=1': 1}.get(st, False)
                        if form == 'function':
                            if st == 'keywords':
                                return lambda y: P.to_fpm_and_back_backprop(wavefunction=y, dx=a['dx'], wavelength=a['wavelength'], efl=a['efl'], fpm=a['fpm'],
                                                                            fpm_dx=a['fpm_dx'], method='mdft', shift=a['shift'], return_more=False)
                            if st == 'positional':
                                return lambda y: P.to_fpm_and_back_backprop(y, a['dx'], a['wavelength'], a['efl'], a['fpm'], a['fpm_dx'], 'mdft', a['shift'], False)
                            if st == 'shift-omitted':
                                return lambda y: P.to_fpm_and_back_backprop(y, a['dx'], a['wavelength'], a['efl'], a['fpm'], a['fpm_dx'])
                            return lambda y: first(P.to_fpm_and_back_backprop(y, a['dx'], a['wavelength'], a['efl'], a['fpm'], a['fpm_dx'], shift=a['shift'],
                                                                              return_more=more, **({'method': 'mdft'} if st == 'method-explicit' else {})), a)

                        def wb(y):
                            w = P.Wavefront(y, a['wavelength'], a['dx'])
                            if st == 'keywords':
                                return w.to_fpm_and_back_backprop(efl=a['efl'], fpm=a['fpm'], fpm_dx=a['fpm_dx'], method='mdft', shift=a['shift'],
                                                                  return_more=False).data
                            if st == 'positional':
                                return w.to_fpm_and_back_backprop(a['efl'], a['fpm'], a['fpm_dx'], 'mdft', a['shift'], False).data
                            if st == 'shift-omitted':
                                return w.to_fpm_and_back_backprop(a['efl'], a['fpm'], a['fpm_dx']).data
                            return first(w.to_fpm_and_back_backprop(a['efl'], a['fpm'], a['fpm_dx'], shift=a['shift'], return_more=more), a).data
                        return wb

                    def hostile():
                        P.to_fpm_and_back(np.ones(pupil, dtype=complex), dx, efl, wvl, np.ones(ms), fdx, shift=np.array([1.5, -0.5]) * fdx, return_more=True)
                        P.to_fpm_and_back_backprop(np.ones(pupil, dtype=complex), dx, wvl, efl, np.ones(ms), fdx, shift=[0.5 * fdx, fdx], return_more=True)
                    if not forms:
                        return None
                    return _form_lin(row, fwd_of, bwd_of, pupil, pupil, forms, pre=hostile)
                yield cls, desc, build


def gen_forms_babinet(ctx, rng):
    from prysm import propagation as P
    row = 'Wavefront.babinet_backprop'
    k = -1
    for rep in range(ctx.pick(2, 24)):
        for arg in ('fpm', 'lyot', 'efl', 'fpm_dx', 'call'):
            for mk in ('binary', 'grey', 'complex'):
                k += 1
                if not ctx.mine(k):
                    continue
                pupil = (5, 5) if k % 2 else _rand_shape(rng, 'nonsq', 3, 8)
                ms = pupil if k % 4 < 2 else _rand_shape(rng, ['sq', 'nonsq'][int(rng.integers(2))], 3, 9)
                dx, wvl, efl, fdx = _geom_f32(rng, pupil)
                lk = ['none', 'binary', 'grey', 'complex'][(k // 3) % 4] if arg != 'lyot' else mk
                cls = f'form:{arg}'
                desc = {'pupil': pupil, 'mask': ms, 'mask_kind': mk, 'lyot': lk, 'dx': dx, 'wvl': wvl, 'efl': efl, 'fdx': fdx, 'argument': arg,
                        'variant': 'forms', 'sub': _subseed(rng)}

                def build(r_, pupil=pupil, ms=ms, mk=mk, lk=lk, dx=dx, wvl=wvl, efl=efl, fdx=fdx, arg=arg):
                    def mk_mask(kind, shape):
                        m = r_.uniform(0, 1, shape)
                        if kind == 'binary':
                            m = (m > 0.4).astype(np.float64)
                            if m.sum() < 2:
                                m[...] = 1.0
                            return m
                        return f32_exact(m) if kind == 'grey' else f32_exact(m * np.exp(1j * r_.uniform(-3, 3, shape)))
                    canon = {'efl': efl, 'lyot': None if lk == 'none' else mk_mask(lk, pupil), 'fpm': mk_mask(mk, ms), 'fpm_dx': fdx}
                    table, forms = {'base': canon}, []
                    if arg == 'call':
                        for s in ('keywords', 'positional', 'method-explicit'):
                            table[f'call={s}'] = dict(canon, style=s)
                            forms.append((f'call={s}', False))
                    elif arg in ('fpm', 'lyot'):
                        for lab, arr, _ in _mask_forms(canon[arg]):
                            table[f'{arg}={lab}'] = dict(canon, **{arg: arr})
                            forms.append((f'{arg}={lab}', lab in ('float32', 'complex64')))
                    else:
                        for label, make, single in _arg_forms('scalar', canon[arg]):
                            table[f'{arg}={label}'] = dict(canon, **{arg: make()})
                            forms.append((f'{arg}={label}', single))

                    def of(meth):
                        def make(t):
                            a = table[t]
                            st = a.get('style')

                            def run(x):
                                m = getattr(P.Wavefront(x, wvl, dx), meth)
                                if st == 'keywords':
                                    return m(efl=a['efl'], lyot=a['lyot'], fpm=a['fpm'], fpm_dx=a['fpm_dx'], method='mdft').data
                                if st == 'positional':
                                    return m(a['efl'], a['lyot'], a['fpm'], a['fpm_dx'], 'mdft').data
                                if st == 'method-explicit':
                                    return m(a['efl'], a['lyot'], a['fpm'], a['fpm_dx'], method='mdft').data
                                return m(a['efl'], a['lyot'], a['fpm'], a['fpm_dx']).data
                            return run
                        return make
                    if not forms:
                        return None
                    return _form_lin(row, of('babinet'), of('babinet_backprop'), pupil, pupil, forms)
                yield cls, desc, build


def gen_forms_modes(ctx, rng):
    from prysm import polynomials
    row = 'sum_of_2d_modes_backprop'
    k = -1
    for rep in range(ctx.pick(4, 60)):
        for gk in ('r', 'c'):
            k += 1
            if not ctx.mine(k):
                continue
            shape = _rand_shape(rng, ['sq', 'nonsq', 'line'][k % 3], 2, 9)
            K = [1, 2, 3, 5][k % 4]
            cls = 'form:modes'
            desc = {'shape': shape, 'K': K, 'databar': gk, 'variant': 'forms', 'sub': _subseed(rng)}

            def build(r_, shape=shape, K=K, gk=gk):
                modes = f32_exact(r_.standard_normal((K,) + shape))
                ro = modes.copy()
                ro.setflags(write=False)
                table = {'base': modes, 'modes=tuple': tuple(modes), 'modes=list': list(modes), 'modes=list-of-copies': [m.copy() for m in modes],
                         'modes=float32 ndarray': modes.astype(np.float32), 'modes=list of float32': [m.astype(np.float32) for m in modes],
                         'modes=nested list': modes.tolist(), 'modes=read-only': ro, 'modes=F-order': np.asfortranarray(modes)}
                forms = [(lab, 'float32' in lab) for lab in table if lab != 'base']
                forms += [('weights,databar=float32', True), ('call=keywords', False)]
                table['weights,databar=float32'] = modes
                table['call=keywords'] = modes
                keep = modes.copy()

                def fwd_of(t):
                    mm = table[t]
                    if t == 'weights,databar=float32':
                        return lambda w: polynomials.sum_of_2d_modes(mm, cast(w, 'f32'))
                    if t == 'call=keywords':
                        return lambda w: polynomials.sum_of_2d_modes(modes=mm, weights=w)
                    return lambda w: polynomials.sum_of_2d_modes(mm, w)

                def bwd_of(t):
                    mm = table[t]
                    if t == 'weights,databar=float32':
                        return lambda g: polynomials.sum_of_2d_modes_backprop(mm, cast(g, 'f32'))
                    if t == 'call=keywords':
                        return lambda g: polynomials.sum_of_2d_modes_backprop(modes=mm, databar=g)
                    return lambda g: polynomials.sum_of_2d_modes_backprop(mm, g)
                c = _form_lin(row, fwd_of, bwd_of, (K,), shape, forms, xkind='r', ykind=gk, exact32=True)

                def unchanged():
                    if not same(modes, keep):
                        ctx.event(f'argument-modified-in-place:{row}:modes')
                c.plan.append(('do', unchanged))
                return c
            yield cls, desc, build


def gen_forms_dm(ctx, rng):
    """DM.render_backprop: the wfe flag in every form, and a DM built from other forms of its constructor arguments."""
    from prysm.x.dm import DM
    row = 'DM.render_backprop'
    k = -1
    for rep in range(ctx.pick(2, 30)):
        for arg in ('wfe', 'ctor'):
            for wfe in (True, False):
                k += 1
                if not ctx.mine(k):
                    continue
                N = int(rng.integers(12, 20)) * 2
                Nact, sep = [4, 3, 5][k % 3], [3, 4][k % 2]
                if (Nact // 2 + 1) * sep + sep // 2 >= N // 2:
                    sep = 3
                shift = (0, 0) if k % 3 == 0 else _pair_value(rng, ['generic', 'integral', 'single-axis-x'][k % 3])
                dN = [0, 6, -6][(k // 2) % 3]
                sigma = float(np.round(rng.uniform(1.0, 2.0), 2))
                cls = f'form:{arg}'
                desc = {'N': N, 'Nact': Nact, 'sep': sep, 'shift': shift, 'Nout': N + dN, 'wfe': wfe, 'sigma': sigma, 'argument': arg,
                        'variant': 'forms', 'sub': _subseed(rng)}

                def build(r_, N=N, Nact=Nact, sep=sep, shift=shift, dN=dN, sigma=sigma, wfe=wfe, arg=arg):
                    ifn = _dm_ifn(N, sigma)
                    Nout = N + dN

                    def new_dm(**kw):
                        a = dict(ifn=ifn, Nout=Nout, Nact=Nact, sep=sep, shift=shift)
                        a.update(kw)
                        with warnings.catch_warnings():
                            warnings.simplefilter('ignore')
                            return DM(**a)
                    dm0 = new_dm()
                    ashape, oshape = dm0.actuators.shape, dm0.render(wfe=wfe).shape
                    dms, flags, forms = {'base': dm0}, {'base': ('kw', wfe)}, []
                    if arg == 'wfe':
                        for lab, val in (('positional', ('pos', wfe)), ('python-int', ('kw', int(wfe))), ('numpy-bool', ('kw', np.bool_(wfe))),
                                         ('omitted', ('omit', None)) if wfe else ('positional-int', ('pos', 0))):
                            dms[f'wfe={lab}'] = dm0
                            flags[f'wfe={lab}'] = val
                            forms.append((f'wfe={lab}', False))
                    else:
                        ctor = {'Nout=tuple': dict(Nout=(Nout, Nout)), 'Nout=list': dict(Nout=[Nout, Nout]),      # numpy integers for Nout / Nact / sep are not ints for the constructor: raise (FORMS_NOTE)
                                'sep=tuple': dict(sep=(sep, sep)), 'Nact=tuple': dict(Nact=(Nact, Nact)),
                                'shift=list': dict(shift=list(shift)), 'shift=float64 ndarray': dict(shift=np.array(shift, dtype=float)),
                                'shift=np.float64 scalars': dict(shift=tuple(np.float64(s) for s in shift)),
                                'rot=list': dict(rot=[0, 0, 0]), 'upsample=python-float': dict(upsample=1.0), 'upsample=tuple': dict(upsample=(1, 1)),
                                'ifn=F-order': dict(ifn=np.asfortranarray(ifn)), 'call=positional': None}
                        for lab, kw in ctor.items():
                            try:
                                dms[lab] = new_dm(**kw) if kw is not None else DM(ifn, Nout, Nact, sep, shift)
                            except Exception:
                                ctx.skip(f'{row}: the DM constructor rejects {lab} (out of domain)')
                                continue
                            flags[lab] = ('kw', wfe)
                            forms.append((lab, False))

                    def fwd_of(t):
                        dm, (how, val) = dms[t], flags[t]

                        def fwd(x):
                            dm.actuators[:] = np.real(x)
                            return dm.render() if how == 'omit' else dm.render(val) if how == 'pos' else dm.render(wfe=val)
                        return fwd

                    def bwd_of(t):
                        dm, (how, val) = dms[t], flags[t]

                        def bwd(y):
                            g = np.array(np.real(y), copy=True)       # render_backprop may use its argument as scratch (ASSUMPTIONS)
                            return dm.render_backprop(g) if how == 'omit' else dm.render_backprop(g, val) if how == 'pos' else dm.render_backprop(g, wfe=val)
                        return bwd
                    if not forms:
                        return None
                    # a DM's backprop belongs to the render that preceded it (it reads the geometry render() recorded): forward first
                    return _form_lin(row, fwd_of, bwd_of, ashape, oshape, forms, xkind='r', ykind='r', forward_first=True)
                yield cls, desc, build


def gen_forms_vjp(ctx, rng, which):
    """Non-linear rows: the companion in another argument form, against the finite-difference-validated canonical gradient."""
    from prysm import propagation as P
    from prysm.x.optym.activation import GumbelSoftmax
    row = {'intensity': 'Wavefront.intensity_backprop', 'phase': 'Wavefront.from_amp_and_phase_backprop_phase', 'gumbel': 'GumbelSoftmax.backprop'}[which]
    R = row
    n = ctx.share(ctx.pick(24, 600))
    for i_local in range(n):
        i = i_local * ctx.nshards + ctx.shard          # global enumeration index: the classes cycle across the shards
        shape = _rand_shape(rng, ['sq', 'nonsq', 'line'][i % 3], 2, 9)
        cls = 'form'
        desc = {'shape': shape, 'variant': 'forms', 'sub': _subseed(rng)}
        if which == 'gumbel':
            tau = [1.0, 2.0, 0.5, 4.0][i % 4]
            desc['tau'] = tau
            seed = _subseed(rng)

        def build(r_, shape=shape, i=i):
            def tw(label, f, v, single=False):
                return Twin(label, f, v, f'C06/{R}/form:{label}', RT_F32_NL if single else RT_DIR, 'form')
            if which == 'intensity':
                E = f32_exact(crandn(r_, shape) * float(r_.uniform(0.5, 5)))

                def f(x):
                    return np.asarray(P.Wavefront(x, 0.6, 0.1).intensity.data)

                def vjp(x, g):
                    return P.Wavefront(x, 0.6, 0.1).intensity_backprop(g).data

                def ro(g):
                    q = np.array(g, copy=True)
                    q.setflags(write=False)
                    return q
                twins = [tw('intensity_bar=float32', f, lambda x, g: vjp(x, cast(g, 'f32')), True),
                         tw('intensity_bar=read-only', f, lambda x, g: vjp(x, ro(g))),
                         tw('intensity_bar=F-order', f, lambda x, g: vjp(x, np.asfortranarray(g))),
                         tw('call=keyword', f, lambda x, g: P.Wavefront(x, 0.6, 0.1).intensity_backprop(intensity_bar=g).data),
                         tw('field=complex64', f, lambda x, g: vjp(cast(x, 'c64'), g), True)]
                return Vjp(f, vjp, E, gkind='r', xkind='c', h=1e-2 * float(np.max(np.abs(E))), twins=twins)
            if which == 'phase':
                amp = f32_exact(r_.uniform(0.1, 1.5, shape))
                wvl = [0.5, 1.0, 0.75][i % 3]
                ph = f32_exact(r_.standard_normal(shape) * 20)

                def f(p):
                    return P.Wavefront.from_amp_and_phase(amp, p, wvl, 0.1).data

                def vjp(p, g, as_wf=True, **kw):
                    w = P.Wavefront.from_amp_and_phase(kw.get('amp', amp), p, kw.get('wvl', wvl), kw.get('dx', 0.1))
                    return w.from_amp_and_phase_backprop_phase(P.Wavefront(g, wvl, 0.1) if as_wf else g)
                twins = [tw('wf_bar=ndarray', f, lambda p, g: vjp(p, g, as_wf=False)),
                         tw('wf_bar=complex64', f, lambda p, g: vjp(p, cast(g, 'c64')), True),
                         tw('amp=float32', f, lambda p, g: vjp(p, g, amp=amp.astype(np.float32)), True),
                         tw('amp=read-only', f, lambda p, g: vjp(p, g, amp=np.asfortranarray(amp))),
                         tw('wavelength=numpy-float64', f, lambda p, g: vjp(p, g, wvl=np.float64(wvl))),
                         tw('wavelength=0d-array', f, lambda p, g: vjp(p, g, wvl=np.array(wvl))),
                         tw('dx=numpy-float64', f, lambda p, g: vjp(p, g, dx=np.float64(0.1))),
                         tw('phase=float32', f, lambda p, g: vjp(cast(p, 'f32'), g), True)]
                if float(wvl) == int(wvl):
                    twins.append(tw('wavelength=python-int', f, lambda p, g: vjp(p, g, wvl=int(wvl))))
                return Vjp(f, vjp, ph, gkind='c', xkind='r', h=1e-2 * wvl * 1e3 / (2 * np.pi), twins=twins)
            K = int(r_.integers(2, 6))
            x0 = r_.standard_normal(shape + (K,)) * 0.8

            def node(t):
                nd = GumbelSoftmax(t, 1e-12) if isinstance(t, tuple) is False and t is not None else GumbelSoftmax(tau=tau, eps=1e-12)
                nd.rng = np.random.default_rng(seed)
                return nd

            def mk(tform):
                def f(x):
                    return node(tform).forward(x)

                def vjp(x, g):
                    nd = node(tform)
                    nd.forward(x)
                    return nd.backprop(g)
                return f, vjp
            f, vjp = mk(None)
            twins = []
            for label, t in (('tau=numpy-float64', np.float64(tau)), ('tau=0d-array', np.array(tau)), ('tau=numpy-float32', np.float32(tau))) + \
                    ((('tau=python-int', int(tau)), ('tau=numpy-int64', np.int64(int(tau)))) if float(tau) == int(tau) else ()):
                ft, vt = mk(t)
                twins.append(tw(label, ft, vt))
            return Vjp(f, vjp, x0, gkind='r', xkind='r', h=1e-3, twins=twins)
        yield cls, desc, build


def gen_forms_cost(ctx, rng, name):
    """Cost functions with the data in every integer / float dtype that holds it exactly (detector counts)."""
    from prysm.x.optym import cost
    fn = getattr(cost, name)
    n = ctx.share(ctx.pick(18, 400))
    for i_local in range(n):
        i = i_local * ctx.nshards + ctx.shard          # global enumeration index: the classes cycle across the shards
        mk = ['unmasked', 'masked'][i % 2] if name != 'bias_and_gain_invariant_error' else 'masked'
        shape = [(5, 6), (12,), (4, 4), (3, 7)][i % 4] if name != 'bias_and_gain_invariant_error' else [(5, 6), (4, 4), (3, 7)][i % 3]
        cls = 'form:D'
        desc = {'shape': shape, 'mask': mk, 'variant': 'forms', 'sub': _subseed(rng)}

        def build(r_, shape=shape, mk=mk):
            mask = None
            if mk == 'masked':
                mask = r_.uniform(0, 1, shape) > 0.3
                if mask.sum() < 3:
                    mask[...] = True
            if name == 'negative_loglikelihood':
                M = r_.uniform(0.05, 0.95, shape)
                D = (r_.uniform(0, 1, shape) > 0.5).astype(np.float64)
                h = 5e-4
                dts = ['int64', 'int32', 'int8', 'float32']       # unsigned targets: out of domain (FORMS_NOTE)
            else:
                M = r_.uniform(0.1, 1.1, shape) * 40
                D = np.round(r_.uniform(0, 60, shape))
                h = 3e-3 * float(np.max(M))
                dts = ['int64', 'int32', 'int16', 'uint16', 'uint8', 'float32']
            twins = []
            for dt in dts:
                Dt = D.astype(dt)

                def ft(m, Dt=Dt):
                    return fn(m, Dt, mask)
                # float32 data pull the routine's arithmetic into single precision (thorough seed 1: 1.5e-6 relative on a masked 3x7 case)
                twins.append(Twin(f'D={dt}', ft, None, f'C06/{name}/form:D={dt}', RT_F32_NL if dt == 'float32' else RT_DIR, 'form'))
            ro = D.copy()
            ro.setflags(write=False)
            twins.append(Twin('D=read-only', lambda m: fn(m, ro, mask), None, f'C06/{name}/form:D=read-only', RT_DIR, 'form'))
            if name == 'mean_square_error':
                twins.append(Twin('call=keywords', lambda m: fn(M=m, D=D, mask=mask), None, f'C06/{name}/form:call=keywords', RT_DIR, 'form'))
                if mask is None:
                    twins.append(Twin('mask=omitted', lambda m: (fn(m, D, np.ones(shape, dtype=bool)), fn(m, D))[1], None,
                                      f'C06/{name}/form:mask=omitted', RT_DIR, 'form'))
            if name == 'negative_loglikelihood':
                twins.append(Twin('call=keywords', lambda m: fn(y=m, yhat=D, mask=mask), None, f'C06/{name}/form:call=keywords', RT_DIR, 'form'))
            return Cost(lambda m: fn(m, D, mask), M, h, twins=twins)
        yield cls, desc, build
        # narrow integer data as the *primary* case: whatever the routine makes of such data (numpy's narrow-integer arithmetic may
        # make it another cost than for float data: the twins above are then skipped and counted), the gradient it returns must be
        # the gradient of the cost it returns
        if name != 'negative_loglikelihood':
            dt = ['uint8', 'uint16', 'int16', 'int8'][i % 4]
            desc2 = {'shape': shape, 'mask': mk, 'D_dtype': dt, 'variant': 'forms', 'sub': _subseed(rng)}

            def build2(r_, shape=shape, mk=mk, dt=dt):
                mask = None
                if mk == 'masked':
                    mask = r_.uniform(0, 1, shape) > 0.3
                    if mask.sum() < 3:
                        mask[...] = True
                M = r_.uniform(0.1, 1.1, shape) * 40
                D = np.round(r_.uniform(0, 60, shape)).astype(dt)
                return Cost(lambda m: fn(m, D, mask), M, 3e-3 * float(np.max(M)))
            yield f'form:D={dt}/gradient-of-the-returned-cost', desc2, build2


def gen_forms_activation(ctx, rng, name):
    """Activation nodes on integer-valued and 0-d inputs."""
    from prysm.x.optym import activation
    klass = getattr(activation, name)
    R = name + '.backprop'
    n = ctx.share(ctx.pick(8, 200))
    for i_local in range(n):
        i = i_local * ctx.nshards + ctx.shard          # global enumeration index: the classes cycle across the shards
        a = [1, 0.5, 2.0][i % 3]
        x0 = [0, 0.25, -1.0][(i // 3) % 3]
        xf = ['int64', 'int32', '0d-float64', 'numpy-float64-scalar', 'int16'][i % 5]     # unsigned inputs raise OverflowError for some (a, x0): out of domain
        if name == 'Arctan' and xf.startswith(('int', 'uint')):
            xf = '0d-float64'        # Arctan.backprop scales an integer array in place by a float: raises today (FORMS_NOTE)
        cls = f'form:x={xf}'
        desc = {'a': a, 'x0': x0, 'x_form': xf, 'variant': 'forms', 'sub': _subseed(rng)}

        def build(r_, a=a, x0=x0, xf=xf):
            node = klass(a=a, x0=x0, y0=0.5)
            if xf.startswith(('int', 'uint')):
                lo = -5
                x = r_.integers(lo, 6, (7,)).astype(xf)
            elif xf == '0d-float64':
                x = np.array(float(r_.uniform(-3, 3)))
            else:
                x = np.float64(r_.uniform(-3, 3))
            return Pointwise(node, x, 3e-3 / a, key=f'C06/{R}/form:x={xf}', mon='form', dmax=abs(a))
        yield cls, desc, build


def gen_foreign(ctx, rng):
    """Class F: the other public consumers of the helpers the matrix-DFT companions share (fftrange, forward_ft_unit, make_xy_grid,
    pad2d, the shared executors) run first with hostile arguments (vp.propforms.foreign_traffic); then the mdft / fixed-sampling /
    mask-and-back adjoints are judged on the same axis lengths."""
    from prysm.fttools import mdft
    from prysm import propagation as P
    pf = _pf()
    n = ctx.share(ctx.pick(8, 120))
    for i_local in range(n):
        i = i_local * ctx.nshards + ctx.shard          # global enumeration index: the classes cycle across the shards
        sa = _rand_shape(rng, ['sq', 'nonsq'][i % 2], 3, 10)
        sb = _rand_shape(rng, ['sq', 'nonsq'][(i // 2) % 2], 3, 10)
        which = ['dft2', 'idft2', 'focus', 'unfocus', 'tfb', 'dm'][i % 6]
        Q = _Q_of(rng, ['scalar', 'pair'][i % 2])
        shift = _shift_of(rng, ['nz', '0'][(i // 5) % 2])
        dx, wvl, efl, fdx = _geom_f32(rng, sa)
        cls = f'after-foreign-traffic/{which}'
        desc = {'in': sa, 'out': sb, 'Q': Q, 'shift': shift, 'which': which, 'variant': 'foreign', 'sub': _subseed(rng)}

        def build(r_, sa=sa, sb=sb, which=which, Q=Q, shift=shift, dx=dx, wvl=wvl, efl=efl, fdx=fdx, desc=desc, i=i):
            if which == 'dm':
                # the DM builds its sub-sample shift ramps from forward_ft_unit(1, n, shift=False)
                from prysm.x.dm import DM
                N = int(r_.integers(12, 18)) * 2
                pf.foreign_traffic(ctx, r_, [N, N + 6], dxs=(1.0, dx), note='foreign:traffic', heavy=False, prefix='C06', desc=desc)
                wfe = bool(i % 2)
                with warnings.catch_warnings():
                    warnings.simplefilter('ignore')
                    dm = DM(_dm_ifn(N, 1.5), Nout=N + [0, 6][i % 2], Nact=4, sep=3, shift=(float(np.round(r_.uniform(0.3, 2.5), 2)), -0.75))
                oshape = dm.render(wfe=wfe).shape

                def fwd(x):
                    dm.actuators[:] = np.real(x)
                    return dm.render(wfe=wfe)
                c = Lin(fwd, lambda y: dm.render_backprop(np.array(np.real(y), copy=True), wfe=wfe), dm.actuators.shape, oshape, xkind='r', ykind='r')
                c.plan = [('f', 0, 'base'), ('b', 0, 'base'), ('f', 1, 'base'), ('b', 1, 'base')]
                c.tags = {'base': Tag('base', mon='foreign')}
                # a DM built before the foreign traffic of an unrelated size must agree with this one: fresh-object comparison
                return c
            pf.foreign_traffic(ctx, r_, list(sa) + list(sb), dxs=(dx, fdx), note='foreign:traffic', heavy=False, prefix='C06', desc=desc)
            if which in ('dft2', 'idft2'):
                f, b = getattr(mdft, which), getattr(mdft, which + '_backprop')
                c = Lin(lambda x: f(x, Q, sb, shift), lambda y: b(y, Q, sa, shift), sa, sb)
            elif which == 'focus':
                ps = (float(shift[0]) * fdx, float(shift[1]) * fdx)
                c = Lin(lambda x: P.focus_fixed_sampling(x, dx, efl, wvl, fdx, sb, shift=ps),
                        lambda y: P.focus_fixed_sampling_backprop(y, dx, efl, wvl, fdx, sa, shift=ps), sa, sb)
            elif which == 'unfocus':
                ps = (float(shift[0]) * dx, float(shift[1]) * dx)
                c = Lin(lambda x: P.unfocus_fixed_sampling(x, fdx, efl, wvl, dx, sb, shift=ps),
                        lambda y: P.unfocus_fixed_sampling_backprop(y, fdx, efl, wvl, dx, sa, shift=ps), sa, sb)
            else:
                m = r_.uniform(0, 1, sb) * np.exp(1j * r_.uniform(-3, 3, sb))
                ps = (float(shift[0]) * fdx, float(shift[1]) * fdx)
                c = Lin(lambda x: P.to_fpm_and_back(x, dx, efl, wvl, m, fdx, shift=ps),
                        lambda y: P.to_fpm_and_back_backprop(y, dx, wvl, efl, m, fdx, shift=ps), sa, sa)
            c.tags = {'base': Tag('base', mon='foreign')}
            return c
        yield cls, desc, build


# (row name = companion routine, monitor kinds, generator)
LINM = ('adjoint', 'history', 'layout', 'precision', 'scale')
VJPM = ('dirderiv', 'history', 'layout', 'precision', 'scale')
NLLM = ('dirderiv', 'history', 'layout', 'precision')
TABLE = [
    ('mdft.dft2_backprop', LINM + ('fresh-object',), lambda c, r: gen_mdft(c, r, 'dft2')),
    ('mdft.idft2_backprop', LINM + ('fresh-object',), lambda c, r: gen_mdft(c, r, 'idft2')),
    ('focus_fixed_sampling_backprop', LINM, lambda c, r: gen_ffs(c, r, 'focus', 'function')),
    ('Wavefront.focus_fixed_sampling_backprop', LINM + ('fresh-object',), lambda c, r: gen_ffs(c, r, 'focus', 'Wavefront')),
    ('unfocus_fixed_sampling_backprop', LINM, lambda c, r: gen_ffs(c, r, 'unfocus', 'function')),
    ('Wavefront.intensity_backprop', VJPM, gen_intensity),
    ('Wavefront.from_amp_and_phase_backprop_phase', VJPM, gen_phase),
    ('sum_of_2d_modes_backprop', LINM, gen_modes),
    ('to_fpm_and_back_backprop', LINM, lambda c, r: gen_tfb(c, r, 'function')),
    ('Wavefront.to_fpm_and_back_backprop', LINM, lambda c, r: gen_tfb(c, r, 'Wavefront')),
    ('Wavefront.babinet_backprop', LINM, gen_babinet),
    ('DM.render_backprop', LINM + ('fresh-object',), gen_dm),
    ('Softmax.backprop', VJPM, lambda c, r: gen_softmax(c, r, 'Softmax')),
    ('GumbelSoftmax.backprop', VJPM, lambda c, r: gen_softmax(c, r, 'GumbelSoftmax')),
    ('DiscreteEncoder.backprop', VJPM, gen_encoder),
    ('Tanh.backprop', ('pointwise', 'no-input-mutation', 'history', 'layout', 'precision'), lambda c, r: gen_activation(c, r, 'Tanh')),
    ('Arctan.backprop', ('pointwise', 'no-input-mutation', 'history', 'layout', 'precision'), lambda c, r: gen_activation(c, r, 'Arctan')),
    ('Softplus.backprop', ('pointwise', 'no-input-mutation', 'history', 'layout', 'precision'), lambda c, r: gen_activation(c, r, 'Softplus')),
    ('Sigmoid.backprop', ('pointwise', 'no-input-mutation', 'history', 'layout', 'precision'), lambda c, r: gen_activation(c, r, 'Sigmoid')),
    ('mean_square_error', VJPM, lambda c, r: gen_cost(c, r, 'mean_square_error')),
    ('negative_loglikelihood', NLLM, lambda c, r: gen_cost(c, r, 'negative_loglikelihood')),
    ('bias_and_gain_invariant_error', VJPM, lambda c, r: gen_cost(c, r, 'bias_and_gain_invariant_error')),
    ('SpatialGradient2D.backprop_x', LINM + ('fresh-object',), lambda c, r: gen_spatial(c, r, 'x')),
    ('SpatialGradient2D.backprop_y', LINM + ('fresh-object',), lambda c, r: gen_spatial(c, r, 'y')),
    ('float32-config', ('adjoint',), gen_f32),
    # hardening pass 2: argument forms (class E) and foreign traffic (class F); same row names => same violation-key prefixes
    ('mdft.dft2_backprop', ('form',), lambda c, r: gen_forms_mdft(c, r, 'dft2')),
    ('mdft.idft2_backprop', ('form',), lambda c, r: gen_forms_mdft(c, r, 'idft2')),
    ('focus_fixed_sampling_backprop', ('form',), lambda c, r: gen_forms_ffs(c, r, 'focus', 'function')),
    ('Wavefront.focus_fixed_sampling_backprop', ('form',), lambda c, r: gen_forms_ffs(c, r, 'focus', 'Wavefront')),
    ('unfocus_fixed_sampling_backprop', ('form',), lambda c, r: gen_forms_ffs(c, r, 'unfocus', 'function')),
    ('to_fpm_and_back_backprop', ('form',), lambda c, r: gen_forms_tfb(c, r, 'function')),
    ('Wavefront.to_fpm_and_back_backprop', ('form',), lambda c, r: gen_forms_tfb(c, r, 'Wavefront')),
    ('Wavefront.babinet_backprop', ('form',), gen_forms_babinet),
    ('sum_of_2d_modes_backprop', ('form',), gen_forms_modes),
    ('DM.render_backprop', ('form',), gen_forms_dm),
    ('Wavefront.intensity_backprop', ('form',), lambda c, r: gen_forms_vjp(c, r, 'intensity')),
    ('Wavefront.from_amp_and_phase_backprop_phase', ('form',), lambda c, r: gen_forms_vjp(c, r, 'phase')),
    ('GumbelSoftmax.backprop', ('form',), lambda c, r: gen_forms_vjp(c, r, 'gumbel')),
    ('mean_square_error', ('form',), lambda c, r: gen_forms_cost(c, r, 'mean_square_error')),
    ('negative_loglikelihood', ('form',), lambda c, r: gen_forms_cost(c, r, 'negative_loglikelihood')),
    ('bias_and_gain_invariant_error', ('form',), lambda c, r: gen_forms_cost(c, r, 'bias_and_gain_invariant_error')),
    ('Tanh.backprop', ('form',), lambda c, r: gen_forms_activation(c, r, 'Tanh')),
    ('Arctan.backprop', ('form',), lambda c, r: gen_forms_activation(c, r, 'Arctan')),
    ('Softplus.backprop', ('form',), lambda c, r: gen_forms_activation(c, r, 'Softplus')),
    ('Sigmoid.backprop', ('form',), lambda c, r: gen_forms_activation(c, r, 'Sigmoid')),
    ('foreign-traffic', ('foreign',), gen_foreign),
    # hardening pass 3: extreme but legal pre-activations (class H)
    ('Tanh.backprop', ('special',), lambda c, r: gen_activation_extreme(c, r, 'Tanh')),
    ('Arctan.backprop', ('special',), lambda c, r: gen_activation_extreme(c, r, 'Arctan')),
    ('Softplus.backprop', ('special',), lambda c, r: gen_activation_extreme(c, r, 'Softplus')),
    ('Sigmoid.backprop', ('special',), lambda c, r: gen_activation_extreme(c, r, 'Sigmoid')),
]
KEY_ROUTINE = {'Wavefront.focus_fixed_sampling_backprop': 'focus_fixed_sampling_backprop',
               'Wavefront.to_fpm_and_back_backprop': 'to_fpm_and_back_backprop'}
REQUIRED += [f'{m}:{row}' for row, mons, _ in TABLE for m in mons] + ['foreign:traffic']


# ============================================================================================ entry points
def run(ctx, only_row=None):
    if isinstance(only_row, str):
        only_row = {only_row}
    from prysm.fttools import mdft
    from prysm.conf import config
    prec0 = config.precision
    h = Harness(ctx)
    try:
        for row, mons, gen in TABLE:
            if only_row is not None and row not in only_row:
                continue
            rng = ctx.rng('c06', row) if mons[0] not in ('form', 'foreign', 'special') else ctx.rng('c06', row, mons[0])
            for cls, desc, build in gen(ctx, rng):
                h.run_case(row, cls, desc, build)
    finally:
        mdft.clear()
        if config.precision is not prec0:
            config.precision = 32 if prec0 is np.float32 else 64
    ctx.note('max_relative_residual_of_passing_cases_by_row', {k: float(f'{v:.2e}') for k, v in sorted(h.roundoff.items())})
    ctx.note('max_relative_residual_of_passing_single_precision_cases_by_row',
             {k: float(f'{v:.2e}') for k, v in sorted(h.roundoff32.items())})
    ctx.note('tolerances', {'adjoint': RT_LIN, 'directional': RT_DIR, 'richardson_settle': SETTLE, 'float32': RT_F32, 'float32_twin': RT_F32_NL,
                            'same_call_again': RT_SAME, 'narrow_forward_gate': FWD_F32})


def replay(ctx, rec):
    """Replay re-runs only the table row named in the witness key (same seed and shard => same cases)."""
    key = rec.get('key', '') if isinstance(rec, dict) else ''
    parts = key.split('/')
    only = {r for r, _, _ in TABLE if len(parts) > 1 and KEY_ROUTINE.get(r, r) == parts[1]} or None
    if only is None and len(parts) > 1 and parts[1].startswith('SpatialGradient2D.forward_'):
        only = {'SpatialGradient2D.backprop_' + parts[1][-1]}
    if only is None and len(parts) > 1 and parts[1] == 'DM.render':
        only = {'DM.render_backprop'}
    run(ctx, only_row=only)
