"""Reach evidence: which executable lines of a property's anchored mechanism ranges actually ran.

Uses sys.monitoring LINE events on code objects under <repo>/prysm only; every location is DISABLEd after its
first hit (and every foreign code object immediately), so the overhead is a one-off per line.
"""
import json
import os
import re
import sys

from .core import REPO, VERIF

_hits = set()
_TOOL = 3
_on = False


def start():
    global _on
    mon = sys.monitoring
    try:
        mon.use_tool_id(_TOOL, 'vp-reach')
    except ValueError:
        return False
    prefix = os.path.join(REPO, 'prysm') + os.sep

    def on_line(code, line):
        fn = code.co_filename
        if fn.startswith(prefix):
            _hits.add((fn, line))
        return mon.DISABLE

    mon.register_callback(_TOOL, mon.events.LINE, on_line)
    mon.set_events(_TOOL, mon.events.LINE)
    _on = True
    return True


def stop():
    global _on
    if _on:
        sys.monitoring.set_events(_TOOL, 0)
        sys.monitoring.free_tool_id(_TOOL)
        _on = False


def hits():
    out = {}
    for fn, line in _hits:
        out.setdefault(os.path.relpath(fn, REPO), []).append(line)
    return {k: sorted(v) for k, v in out.items()}


def _executable_lines(path):
    try:
        src = open(path).read()
        code = compile(src, path, 'exec')
    except Exception:
        return set()
    lines = set()
    stack = [code]
    while stack:
        c = stack.pop()
        for _, _, ln in c.co_lines():
            if ln is not None:
                lines.add(ln)
        for k in c.co_consts:
            if hasattr(k, 'co_lines'):
                stack.append(k)
    return lines


def anchors(pid):
    for l in open(os.path.join(VERIF, 'properties.jsonl')):
        p = json.loads(l)
        if p['id'] == pid:
            return p['anchors'].get('mechanism', [])
    return []


def parse_where(where):
    """'prysm/a.py:1-5, 7-9; prysm/b.py:3' -> [(file, lo, hi), ...]"""
    out = []
    for part in where.split(';'):
        part = part.strip()
        if not part:
            continue
        m = re.match(r'([^:]+):(.*)', part)
        if not m:
            continue
        f = m.group(1).strip()
        for r in m.group(2).split(','):
            r = r.strip()
            if not r:
                continue
            mm = re.match(r'(\d+)(?:-(\d+))?', r)
            if mm:
                lo = int(mm.group(1))
                hi = int(mm.group(2) or lo)
                out.append((f, lo, hi))
    return out


def table(pid, hitmap):
    """Per anchored mechanism: executable lines in its ranges, how many ran."""
    rows = []
    cache = {}
    for mech in anchors(pid):
        tot = 0
        hit = 0
        for f, lo, hi in parse_where(mech.get('where', '')):
            if f not in cache:
                cache[f] = _executable_lines(os.path.join(REPO, f))
            ex = {l for l in cache[f] if lo <= l <= hi}
            h = set(hitmap.get(f, []))
            tot += len(ex)
            hit += len(ex & h)
        rows.append({'mechanism': mech.get('name'), 'where': mech.get('where'), 'executable_lines': tot, 'lines_run': hit})
    return rows
