"""Class F (HARDENING2.md): "foreign traffic" — the OTHER public consumers of the helpers a property's routines share with the
rest of the library (`fttools.fftrange`, `fttools.forward_ft_unit` / `fftfreq`, `coordinates.make_xy_grid`, the module-level matrix-DFT
/ chirp-Z executors, `prysm.conf.config`), called with hostile arguments before a property module judges its own routines.

    foreign_traffic(ctx, lengths, heavy=True | False | 'mini') -> short tag string (what ran)

heavy=True: everything below under precision 64 AND 32; False: the configured precision only, without to_fpm_and_back / synthesis / angular
spectrum; 'mini': one shifted focus + one shifted unfocus (matrix DFT / chirp-Z alternating), the in-place edits and the Interferogram
operations for ONE dx (1, 0.37, 12.5 cycled from call to call) — cheap enough to be an operation of long object histories.

`lengths` are the axis lengths the caller is about to use; every component below is run with axis lengths taken from that list (input
rows / columns, output rows / columns, grid sizes, surface sizes), in float64 and float32, under precision 64 and precision 32.

Hostile = what the current tree's own callers and any user are entitled to do:
  * non-zero, never-repeated shifts through focus_fixed_sampling / unfocus_fixed_sampling / Wavefront.to_fpm_and_back /
    mdft.dft2 / mdft.idft2 / czt.czt2 / czt.iczt2 (first use of a geometry builds the bases from fftrange and edits them in place);
  * in-place edits of arrays the helpers RETURNED to the caller (every helper returns a fresh array on the current tree and prysm's
    own callers — Interferogram.latcal / recenter, render_synthetic_surface, the executors — edit them in place);
  * render_synthetic_surface (edits the frequency vector it gets from forward_ft_unit), psd, Interferogram.latcal / recenter / pad,
    angular_spectrum_transfer_function, RichData.x on an array of the same shape;
  * the same again under `config.precision = 32` (restored afterwards), and explicit non-default values for arguments with defaults.

Nothing here is judged: a component that raises is counted as a skip (`foreign traffic: <component> raised <Type>`) and the prelude goes
on — the property module's own contracts / monitors judge what happens AFTERWARDS (and the contracts that are attached also see the calls
the prelude makes from inside prysm).  numpy.random state is saved and restored.
"""
import warnings

import numpy as np

_COUNTER = [0]
_LAST_SWEEP = [0]
_CALLS = [0]
_MEM_LIMIT = 64 * 1024 * 1024


def _uniq():
    """A never-repeated non-zero shift (so that the executors cannot answer from a previously built basis)."""
    _COUNTER[0] += 1
    k = _COUNTER[0]
    return 0.5 + (k % 7) + 1.0 / (1 + k)


def foreign_traffic(ctx, lengths, heavy=True):
    with warnings.catch_warnings(), np.errstate(all='ignore'):
        warnings.simplefilter('ignore')
        return _foreign_traffic(ctx, lengths, heavy)


def _foreign_traffic(ctx, lengths, heavy):
    from prysm import fttools, coordinates, propagation, interferogram as ifg
    from prysm.conf import config
    from .util import precision
    L = [int(n) for n in lengths if int(n) >= 1] or [4]
    a, b = L[0], L[-1]
    c, d = L[len(L) // 2], L[(len(L) // 2 + 1) % len(L)]
    tags = []
    state = np.random.get_state()
    old = 32 if config.precision is np.float32 else 64

    def run(name, fn):
        try:
            fn()
            tags.append(name)
        except Exception as e:      # not this property's business; counted
            ctx.skip(f'foreign traffic: {name} raised {type(e).__name__}')

    def edit(arrs):
        """What a caller may do with arrays it was handed (prysm's own callers do)."""
        for v in (arrs if isinstance(arrs, tuple) else (arrs,)):
            if isinstance(v, np.ndarray) and v.size and v.flags.writeable:
                if v.dtype.kind in 'fc':
                    v *= 3.0
                    v += 1.25
                else:
                    v += 3

    mini = heavy == 'mini'
    heavy = heavy is True
    dxs = (1.0, 0.37, 12.5)
    try:
        if mini:        # the cheapest hostile subset (used inside long histories): one dtype, one dx per call (cycled), no direct executor calls
            _CALLS[0] += 1
            k = _CALLS[0]
            dxs = (dxs[k % 3],)
            fdt = np.float32 if old == 32 else np.float64
            wf = np.ones((a, b), dtype=fdt if k % 2 else (np.complex64 if old == 32 else np.complex128))
            img = np.ones((c, d), dtype=fdt)
            s0, s1 = _uniq(), -_uniq()
            m0, m1 = ('mdft', 'czt') if k % 4 < 2 else ('czt', 'mdft')
            run(f'focus_fixed_sampling[{m0}]', lambda: propagation.focus_fixed_sampling(
                wf, 1.0, 100.0, 0.55, 2.0, (c, d), shift=(s0 * 2.0, s1 * 2.0), method=m0))
            run(f'unfocus_fixed_sampling[{m1}]', lambda: propagation.unfocus_fixed_sampling(
                img, 2.0, 100.0, 0.55, 1.0, (a, b), shift=(s1, s0), method=m1))
        for prec in ((64, 32) if heavy else (old,)):
            with precision(prec):
                fdt = np.float32 if prec == 32 else np.float64
                for dt in (fdt, np.complex64 if prec == 32 else np.complex128) if not mini else ():
                    wf = np.ones((a, b), dtype=dt)
                    wf[a // 2, b // 2] = 2
                    img = np.ones((c, d), dtype=dt)
                    for method in ('mdft', 'czt'):
                        s0, s1 = _uniq(), -_uniq()
                        run(f'focus_fixed_sampling[{method}]', lambda: propagation.focus_fixed_sampling(
                            wf, 1.0, 100.0, 0.55, 2.0, (c, d), shift=(s0 * 2.0, s1 * 2.0), method=method))
                        run(f'unfocus_fixed_sampling[{method}]', lambda: propagation.unfocus_fixed_sampling(
                            img, 2.0, 100.0, 0.55, 1.0, (a, b), shift=(s1, s0), method=method))
                        if heavy and dt in (np.complex64, np.complex128):
                            w = propagation.Wavefront(wf.copy(), 0.55, 1.0)
                            run(f'to_fpm_and_back[{method}]', lambda: w.to_fpm_and_back(100.0, np.ones((c, d)), 2.0, method=method,
                                                                                         shift=(_uniq(), _uniq())))
                    q = 1.0 + 1.0 / (2 + _COUNTER[0] % 5)
                    run('mdft.dft2', lambda: fttools.mdft.dft2(wf, q, (d, c), shift=(_uniq(), _uniq())))
                    run('mdft.idft2', lambda: fttools.mdft.idft2(img, q, (b, a), shift=(-_uniq(), _uniq())))
                    run('czt.czt2', lambda: fttools.czt.czt2(wf, q, (d, c), shift=(_uniq(), -_uniq())))
                    run('czt.iczt2', lambda: fttools.czt.iczt2(img, q, (b, a), shift=(_uniq(), _uniq())))
                # callers that edit what the helpers hand them
                for n in sorted(set(L))[:6]:
                    run('edit(fftrange)', lambda: edit(fttools.fftrange(n, dtype=config.precision)))
                    run('edit(fftrange int)', lambda: edit(fttools.fftrange(n)))
                    for dx in dxs:
                        run('edit(forward_ft_unit)', lambda: (edit(fttools.forward_ft_unit(dx, n)), edit(fttools.forward_ft_unit(dx, n, shift=False))))
                        run('edit(make_xy_grid)', lambda: (edit(coordinates.make_xy_grid((n, b), dx=dx)), edit(coordinates.make_xy_grid((a, n), dx=dx, grid=False))))
                    if n >= 3 and heavy:
                        for size in (float(n - 1), 0.37 * (n - 1), 12.5 * (n - 1)):     # dxg = size/(samples-1) = 1, 0.37, 12.5
                            run('render_synthetic_surface', lambda: ifg.render_synthetic_surface(size, n, rms=1.0, mask=None, psd_fcn=ifg.abc_psd,
                                                                                                 a=1.0, b=0.1, c=2.0))
                z = (np.arange(a * b, dtype=fdt).reshape(a, b) % 7) + 1
                if a >= 2 and b >= 2 and not mini:
                    run('psd', lambda: ifg.psd(z, 0.37, window='hann'))
                for dx in dxs:
                    def ifg_ops():
                        o = ifg.Interferogram(z.copy(), dx=dx)
                        o.x, o.y
                        o.latcal(2.5)
                        o.recenter()
                        o.pad(0.0, samples=(d - a) if d > a else 1)
                        o.strip_latcal()
                    run('Interferogram.latcal/recenter/pad', ifg_ops)
                if heavy:
                    run('angular_spectrum_transfer_function', lambda: propagation.angular_spectrum_transfer_function((a, b), 0.55, 0.37, 10.0))
        if _COUNTER[0] - _LAST_SWEEP[0] > (4000 if max(L) < 48 else 0):     # keep the shared executors from growing without bound over a long run
            _LAST_SWEEP[0] = _COUNTER[0]
            for ex in (fttools.mdft, fttools.czt):
                try:
                    if ex.nbytes() > _MEM_LIMIT:
                        ex.clear()
                except Exception:
                    pass
    finally:
        np.random.set_state(state)
        config.precision = old
    ctx.event('foreign-traffic.preludes')
    return '+'.join(sorted(set(tags)))
