"""./check <ID> <quick|thorough> [--seed N] [--replay PATH] [--shards K]

Orchestrator: starts one worker process per shard (subprocess.run with a timeout; never a Pool), merges what
the monitors observed, classifies violations against the committed ledger, writes evidence and replay files.
Exit 0 = held on everything observed, 1 = new violation (VIOLATION line), 2 = inconclusive.
"""
import argparse
import concurrent.futures
import importlib
import json
import os
import re
import shutil
import subprocess
import sys
import tempfile
import time
import traceback

from . import registry
from .core import REPO, VERIF, Ctx

PY = '/venv/bin/python'


def worker_env():
    env = dict(os.environ)
    env['PYTHONPATH'] = REPO + os.pathsep + VERIF
    env['PYTHONHASHSEED'] = '0'
    env['PYTHONDONTWRITEBYTECODE'] = '1'
    env['PRYSM_VERIF'] = '1'
    env['MPLBACKEND'] = 'Agg'
    for k in ('OMP_NUM_THREADS', 'OPENBLAS_NUM_THREADS', 'MKL_NUM_THREADS', 'NUMEXPR_NUM_THREADS'):
        env[k] = '1'
    return env


# ------------------------------------------------------------------------------------- worker
def worker(pid, tier, seed, shard, nshards, out, only=None):
    import warnings
    import numpy as np
    from . import reach
    reach.start()
    import prysm
    assert os.path.realpath(prysm.__file__).startswith(os.path.realpath(REPO) + os.sep), \
        f'prysm imported from {prysm.__file__}, not from {REPO}'
    ctx = Ctx(pid, tier, seed, shard, nshards)
    res = {}
    wcount = {}
    orig_show = warnings.showwarning

    def show(message, category, filename, lineno, file=None, line=None):
        if filename.startswith(REPO):
            k = f'{category.__name__}@{os.path.relpath(filename, REPO)}:{lineno}'
            wcount[k] = wcount.get(k, 0) + 1

    warnings.showwarning = show
    warnings.simplefilter('default')
    np.seterr(all='warn')
    mod = None
    try:
        mod = importlib.import_module(f'vp.props.{pid.lower()}')
        if only is not None:
            mod.replay(ctx, only)
        else:
            mod.run(ctx)
    except BaseException as e:  # harness failure, never a verdict on the property
        res['harness_error'] = ''.join(traceback.format_exception(type(e), e, e.__traceback__))[-4000:]
    finally:
        warnings.showwarning = orig_show
        reach.stop()
    res.update(ctx.result())
    res['reach'] = reach.hits()
    res['warnings'] = wcount
    if mod is not None:
        res['required'] = list(getattr(mod, 'REQUIRED', []))
        res['rule'] = getattr(mod, 'RULE', '')
        res['assumptions'] = list(getattr(mod, 'ASSUMPTIONS', []))
        res['unreachable'] = list(getattr(mod, 'UNREACHABLE', []))
    with open(out, 'w') as f:
        json.dump(res, f)


# ------------------------------------------------------------------------------------- ledger
def load_ledger():
    import glob
    led = {'known': [], 'fixed': []}
    # known_findings.json is the single committed ledger
    for p in [os.path.join(VERIF, 'known_findings.json')] + []:
        if os.path.exists(p):
            for attempt in range(3):
                try:
                    d = json.load(open(p))
                    break
                except ValueError:
                    time.sleep(0.2)
            else:
                raise
            led['known'] += d.get('known', [])
            led['fixed'] += d.get('fixed', [])
    return led


def known_for(pid, ledger):
    return {e['key']: e for e in ledger.get('known', []) if e['property'] == pid}


# ------------------------------------------------------------------------------------- merge
def merge(results):
    m = {'evaluations': 0, 'distinct': set(), 'trivial': 0, 'samples': [], 'monitors': {}, 'classes': {},
         'skipped': {}, 'violations': {}, 'notes': {}, 'events': {}, 'reach': {}, 'warnings': {}, 'exhaustive': None,
         'required': [], 'rule': '', 'assumptions': [], 'unreachable': [], 'harness_errors': [], 'shard_wall_s': []}
    exh = []
    for r in results:
        m['evaluations'] += r.get('evaluations', 0)
        m['distinct'].update(r.get('distinct', []))
        m['trivial'] += r.get('trivial', 0)
        for s in r.get('samples', []):
            if len(m['samples']) < 16 and s not in m['samples']:
                m['samples'].append(s)
        for name in ('monitors', 'classes', 'skipped', 'events', 'warnings'):
            for k, v in r.get(name, {}).items():
                m[name][k] = m[name].get(k, 0) + v
        for k, v in r.get('violations', {}).items():
            t = m['violations'].setdefault(k, {'what': v['what'], 'count': 0, 'witnesses': []})
            t['count'] += v['count']
            for w in v['witnesses']:
                if len(t['witnesses']) < 3:
                    w = dict(w)
                    w['shard'] = [r.get('shard', 0), r.get('nshards', 1)]
                    t['witnesses'].append(w)
        for k, v in r.get('notes', {}).items():
            if k not in m['notes']:
                m['notes'][k] = v
            elif m['notes'][k] != v:
                prev = m['notes'][k]
                if not (isinstance(prev, dict) and prev.get('_per_shard')):
                    prev = {'_per_shard': True, 'values': [prev]}
                if len(prev['values']) < 16:
                    prev['values'].append(v)
                m['notes'][k] = prev
        for f, lines in r.get('reach', {}).items():
            m['reach'].setdefault(f, set()).update(lines)
        exh.append(r.get('exhaustive'))
        for name in ('required', 'assumptions', 'unreachable'):
            for x in r.get(name, []):
                if x not in m[name]:
                    m[name].append(x)
        m['rule'] = m['rule'] or r.get('rule', '')
        if r.get('harness_error'):
            m['harness_errors'].append(r['harness_error'])
        m['shard_wall_s'].append(round(r.get('wall_s', 0.0), 2))
    if exh and all(e is True for e in exh):
        m['exhaustive'] = True
    m['reach'] = {k: sorted(v) for k, v in m['reach'].items()}
    return m


def safe(s):
    return re.sub(r'[^A-Za-z0-9_.=+-]+', '_', s)[:120]


def main(argv=None):
    ap = argparse.ArgumentParser()
    ap.add_argument('pid')
    ap.add_argument('tier', nargs='?', default=os.environ.get('VERIF_TIER', 'quick'), choices=['quick', 'thorough'])
    ap.add_argument('--seed', type=int, default=int(os.environ.get('VERIF_SEED', '0') or 0))
    ap.add_argument('--replay')
    ap.add_argument('--shards', type=int)
    ap.add_argument('--worker', nargs=3, metavar=('SHARD', 'NSHARDS', 'OUT'))
    ap.add_argument('--no-evidence', action='store_true', help='do not rewrite evidence/<id>.json (self-validation runs)')
    a = ap.parse_args(argv)
    pid = a.pid.upper()

    if a.worker:
        only = None
        if a.replay:
            only = json.load(open(a.replay))
        worker(pid, a.tier, a.seed, int(a.worker[0]), int(a.worker[1]), a.worker[2], only)
        return 0

    par = registry.params(pid)
    t0 = time.time()
    tier, seed = a.tier, a.seed
    replay_rec = None
    if a.replay:
        replay_rec = json.load(open(a.replay))
        tier = replay_rec.get('tier', tier)
        seed = replay_rec.get('seed', seed)
    nshards = a.shards or par['shards'][tier]
    shards = list(range(nshards))
    if replay_rec is not None:
        sh = (replay_rec.get('witnesses') or [{}])[0].get('shard')
        if sh:
            nshards = sh[1]
            shards = [sh[0]]
    tmp = tempfile.mkdtemp(prefix=f'vp-{pid}-')
    timeout = par['timeout_s'][tier]
    env = worker_env()
    results, problems = [], []

    def launch(i):
        out = os.path.join(tmp, f'{i}.json')
        cmd = [PY, '-m', 'vp.main', pid, tier, '--seed', str(seed), '--worker', str(i), str(nshards), out]
        if a.replay:
            cmd += ['--replay', os.path.abspath(a.replay)]
        try:
            p = subprocess.run(cmd, env=env, cwd=VERIF, timeout=timeout, capture_output=True, text=True)
        except subprocess.TimeoutExpired:
            return i, None, f'shard {i}: watchdog ({timeout}s) fired'
        if not os.path.exists(out):
            return i, None, f'shard {i}: worker exit {p.returncode}, no result: {p.stderr[-1500:]}'
        return i, json.load(open(out)), None

    try:
        with concurrent.futures.ThreadPoolExecutor(max_workers=min(len(shards), os.cpu_count() or 4)) as ex:
            for i, r, prob in ex.map(launch, shards):
                if r is not None:
                    results.append(r)
                if prob:
                    problems.append(prob)
    finally:
        shutil.rmtree(tmp, ignore_errors=True)

    m = merge(results)
    problems += [f'harness error: {h.strip().splitlines()[-1]}' for h in m['harness_errors']]
    for h in m['harness_errors'][:2]:
        sys.stderr.write(h + '\n')
    for name in (m['required'] if replay_rec is None else []):
        if m['monitors'].get(name, 0) == 0:
            problems.append(f'deciding monitor {name!r} was never evaluated')
    if not results:
        problems.append('no worker produced a result')

    ledger = load_ledger()
    known = known_for(pid, ledger)
    new, seen_known = {}, {}
    for k, v in m['violations'].items():
        (seen_known if k in known else new)[k] = v

    lines = []
    for k, e in known.items():
        n = seen_known.get(k, {}).get('count', 0)
        lines.append(f"KNOWN-FINDING: property={pid} {e['what']} [key={k}; observed {n}x this run]")
    rdir = os.path.join(VERIF, 'replays', pid) if not a.no_evidence else os.path.join(tempfile.gettempdir(), 'vp-replays', pid)
    os.makedirs(rdir, exist_ok=True)
    for k, v in new.items():
        path = os.path.join(rdir, safe(k) + '.json')
        json.dump({'property': pid, 'key': k, 'what': v['what'], 'count': v['count'], 'tier': tier, 'seed': seed,
                   'witnesses': v['witnesses'],
                   'replay': f'./check {pid} --replay replays/{pid}/{safe(k)}.json'}, open(path, 'w'), indent=1)
        lines.append(f'VIOLATION property={pid} replay={path}  # {k}: {v["what"][:200]} ({v["count"]}x)')
    verdict = 'violated' if new else ('inconclusive' if problems else 'held')
    for p in problems:
        lines.append(f'INCONCLUSIVE property={pid} reason={p}')

    if replay_rec is None and not a.no_evidence:
        from . import reach
        cov = {
            'evaluations': m['evaluations'],
            'distinct_nontrivial': len(m['distinct']),
            'rule': m['rule'],
            'samples': m['samples'],
            'trivial_cases': m['trivial'],
            'monitor_evaluations': m['monitors'],
            'input_classes_seen': dict(sorted(m['classes'].items(), key=lambda kv: (-kv[1], kv[0]))[:200]),
            'input_classes_distinct': len(m['classes']),
            'excluded_and_counted': m['skipped'],
            'events': dict(sorted(m['events'].items(), key=lambda kv: (-kv[1], kv[0]))[:300]),
            'events_distinct': len(m['events']),
            'numpy_warnings_from_repo_frames': dict(sorted(m['warnings'].items(), key=lambda kv: -kv[1])[:12]),
            'anchored_reach': reach.table(pid, m['reach']),
            'known_findings_observed': {k: v['count'] for k, v in seen_known.items()},
            'new_violation_keys': sorted(new),
            'notes': m['notes'],
            'unreachable_in_this_sandbox': m['unreachable'],
            'shards': nshards, 'shard_wall_s': m['shard_wall_s'],
        }
        if m['exhaustive']:
            cov['exhaustive'] = True
        ev = {'property_id': pid, 'tier': tier, 'seed': seed, 'level': par['level'], 'coverage': cov,
              'assumptions': m['assumptions'], 'wall_s': round(time.time() - t0, 2), 'violations': len(new),
              'verdict': verdict, 'inconclusive_reasons': problems}
        os.makedirs(os.path.join(VERIF, 'evidence'), exist_ok=True)
        json.dump(ev, open(os.path.join(VERIF, 'evidence', f'{pid}.json'), 'w'), indent=1)

    if replay_rec is not None:
        k = replay_rec.get('key')
        hit = m['violations'].get(k)
        print(f'[{pid} replay] key {k!r} ' + (f'REPRODUCED {hit["count"]}x' if hit else 'not reproduced'))
        if hit and k in known:
            print(f'KNOWN-FINDING: property={pid} {known[k]["what"]}')
    print(f'[{pid} {tier} seed={seed}] verdict={verdict} evaluations={m["evaluations"]} distinct={len(m["distinct"])} '
          f'monitors={sum(m["monitors"].values())} known_observed={len(seen_known)} new={len(new)} wall={time.time() - t0:.1f}s')
    for l in lines:
        print(l)
    if new:
        return 1
    if problems:
        return 2
    return 0


if __name__ == '__main__':
    sys.exit(main())
