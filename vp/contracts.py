"""Contracts on the real callables: wrap in place, re-bind every alias inside prysm, count evaluations.

`attach(owner, name, pre=None, post=None)` replaces `owner.name` (module function, class method or instance
attribute) with a wrapper that calls

    token = pre(args, kwargs)            # before the real call; may snapshot mutable arguments
    result = original(*args, **kwargs)
    post(token, args, kwargs, result)    # after the real call; never mutates anything

and then walks every loaded `prysm*` module and re-binds each global that *is* the original object, so
`from .fttools import pad2d` inside `prysm.propagation` is monitored too.  Exceptions raised by the
original propagate unchanged (after `on_raise(token, args, kwargs, exc)` if given).  Monitors are re-entrancy
guarded: a monitor that itself calls prysm code does not trigger nested monitors.
"""
import functools
import sys
import threading

_attached = []
_state = threading.local()


def _in_monitor():
    return getattr(_state, 'depth', 0) > 0


class _Quiet:
    def __enter__(self):
        _state.depth = getattr(_state, 'depth', 0) + 1

    def __exit__(self, *a):
        _state.depth -= 1


def quiet():
    """Context in which attached monitors are bypassed (used by oracles that call prysm themselves)."""
    return _Quiet()


def attach(owner, name, pre=None, post=None, on_raise=None, counter=None):
    original = owner.__dict__[name] if isinstance(owner, type) else getattr(owner, name)
    raw = original
    is_static = isinstance(raw, staticmethod)
    is_class = isinstance(raw, classmethod)
    fn = raw.__func__ if (is_static or is_class) else raw

    @functools.wraps(fn)
    def wrapper(*args, **kwargs):
        if _in_monitor():
            return fn(*args, **kwargs)
        if counter is not None:
            counter[0] += 1
        token = None
        if pre is not None:
            with _Quiet():
                token = pre(args, kwargs)
        try:
            result = fn(*args, **kwargs)
        except Exception as e:
            if on_raise is not None:
                with _Quiet():
                    on_raise(token, args, kwargs, e)
            raise
        if post is not None:
            with _Quiet():
                post(token, args, kwargs, result)
        return result

    wrapper.__vp_original__ = raw
    new = staticmethod(wrapper) if is_static else classmethod(wrapper) if is_class else wrapper
    setattr(owner, name, new)
    rebound = []
    if not isinstance(owner, type):
        for modname, mod in list(sys.modules.items()):
            if mod is None or not (modname == 'prysm' or modname.startswith('prysm.')):
                continue
            for k, v in list(vars(mod).items()):
                if v is raw and not (mod is owner and k == name):
                    setattr(mod, k, wrapper)
                    rebound.append((mod, k))
    _attached.append((owner, name, raw, rebound))
    return wrapper


def detach_all():
    while _attached:
        owner, name, raw, rebound = _attached.pop()
        setattr(owner, name, raw)
        for mod, k in rebound:
            setattr(mod, k, raw)
