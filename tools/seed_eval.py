#!/usr/bin/env python3
"""tools/seed_eval.py [ID ...] [--tier quick] [--no-suite] [--jobs N]

Confirm every seeded change (from /root/seed-backup, independent sub-agents' output) in a scratch worktree of /repo
and run our check for its property against it; keep the confirmed ones under /verif/seeded/<ID>/:
   patch.diff, demo.py, notes.md (author's notes), meta.json (what it breaks / needs, what was run, outcome).
A change is kept only if: demo passes on the clean tree, patch applies, repo suite still matches BASELINE, demo fails
with the patch.  Worktrees are removed afterwards."""
import concurrent.futures
import json
import os
import shutil
import subprocess
import sys

SRC = '/root/seed-backup'
if any(a.startswith('--') and a not in ('--tier', '--no-suite', '--jobs') for a in sys.argv[1:]) or len(sys.argv) == 1 and not os.environ.get('SEED_EVAL_ALL'):
    sys.exit(__doc__ + '\n(no ids given: set SEED_EVAL_ALL=1 to evaluate every id)')
V = '/verif'
table = json.load(open(f'{V}/tools/seed_table.json'))
args = [a for a in sys.argv[1:] if not a.startswith('--')]
tier = sys.argv[sys.argv.index('--tier') + 1] if '--tier' in sys.argv else 'quick'
jobs = int(sys.argv[sys.argv.index('--jobs') + 1]) if '--jobs' in sys.argv else 5
ids = [a for a in args if a in table or a[-1] in 'EFGHIJKL'] or sorted(table)
head = subprocess.run(['git', '-C', '/repo', 'rev-parse', '--short', 'HEAD'], capture_output=True, text=True).stdout.strip()


def sh(cmd, **kw):
    return subprocess.run(cmd, shell=True, capture_output=True, text=True, **kw)


def one(sid):
    pid, tag = sid.split('-')
    src = f'{SRC}/seed-{pid}'
    if tag in ('C', 'D'):      # round 2: A -> C, B -> D
        src = f'{SRC}2/seed-{pid}'
        tag = {'C': 'A', 'D': 'B'}[tag]
    if tag in ('K', 'L'):      # round 6: A -> K, B -> L
        src = f'{SRC}6/seed-{pid}'
        tag = {'K': 'A', 'L': 'B'}[tag]
    if tag in ('I', 'J'):      # round 5: A -> I, B -> J
        src = f'{SRC}5/seed-{pid}'
        tag = {'I': 'A', 'J': 'B'}[tag]
    if tag in ('G', 'H'):      # round 4: A -> G, B -> H
        src = f'{SRC}4/seed-{pid}'
        tag = {'G': 'A', 'H': 'B'}[tag]
    if tag in ('E', 'F'):      # round 3: A -> E, B -> F
        src = f'{SRC}3/seed-{pid}'
        tag = {'E': 'A', 'F': 'B'}[tag]
    patch = next(p for p in (f'{src}/patch_{tag}.ported.diff', f'{src}/patch_{tag}.diff') if os.path.exists(p))
    demo = next(p for p in (f'{src}/demo_{tag}.ported.py', f'{src}/demo_{tag}.py') if os.path.exists(p))
    wt = f'/tmp/wt-seed-{sid}'
    sh(f'git -C /repo worktree remove --force {wt}')
    r = sh(f'git -C /repo worktree add --detach {wt} HEAD')
    res = {'id': sid, 'property': pid, 'repo_head': head, 'patch_source': os.path.basename(patch)}
    res.update(table.get(sid, {'what': '(see notes.md)', 'needs': '(see notes.md)', 'round': 3}))
    rebased = ''
    try:
        env = dict(os.environ, PYTHONPATH=wt, PYTHONDONTWRITEBYTECODE='1')
        d0 = subprocess.run(['/venv/bin/python', demo], env=env, cwd=wt, capture_output=True, text=True, timeout=1800)
        res['demo_on_clean_tree_exit'] = d0.returncode
        a = sh(f'git -C {wt} apply {patch}')
        if a.returncode != 0:
            a = sh(f'git -C {wt} apply --3way {patch}')
            res['patch_rebased_by_3way_merge'] = a.returncode == 0
        res['patch_applies'] = a.returncode == 0
        rebased = sh(f'git -C {wt} diff HEAD').stdout
        if a.returncode != 0:
            res['error'] = a.stderr[-300:]
            return res
        if '--no-suite' not in sys.argv:
            b = subprocess.run([f'{V}/tools/baseline.py'], env=dict(os.environ, VERIF_REPO=wt), capture_output=True, text=True)
            res['suite'] = (b.stdout.strip().splitlines() or ['?'])[0]
            res['suite_unchanged'] = b.returncode == 0
        d1 = subprocess.run(['/venv/bin/python', demo], env=env, cwd=wt, capture_output=True, text=True, timeout=1800)
        res['demo_with_patch_exit'] = d1.returncode
        res['demo_with_patch_last_line'] = ((d1.stdout + d1.stderr).strip().splitlines() or [''])[-1][:240]
        c = subprocess.run([f'{V}/check', pid, tier, '--no-evidence'], env=dict(os.environ, VERIF_REPO=wt), capture_output=True, text=True)
        keys = [l.split('#', 1)[1].strip().split(': ', 1)[0] for l in c.stdout.splitlines() if l.startswith('VIOLATION')]
        res['check_cmd'] = f'VERIF_REPO=<worktree with patch> ./check {pid} {tier} --no-evidence'
        res['check_exit'] = c.returncode
        res['caught'] = c.returncode == 1
        res['violation_keys'] = keys[:12]
        res['n_violation_keys'] = len(keys)
        res['summary_line'] = (c.stdout.splitlines() or [''])[0]
    finally:
        sh(f'git -C /repo worktree remove --force {wt}')
        shutil.rmtree(os.path.join(V, 'replays', pid), ignore_errors=True)
    confirmed = (res.get('demo_on_clean_tree_exit') == 0 and res.get('patch_applies') and res.get('suite_unchanged', True)
                 and res.get('demo_with_patch_exit', 0) != 0)
    res['confirmed'] = bool(confirmed)
    out = f'{V}/seeded/{sid}'
    if confirmed or res.get('void'):
        os.makedirs(out, exist_ok=True)
        open(f'{out}/patch.diff', 'w').write(rebased if res.get('patch_applies') else open(patch).read())
        shutil.copy(demo, f'{out}/demo.py')
        if os.path.exists(f'{src}/notes.md'):
            shutil.copy(f'{src}/notes.md', f'{out}/notes.md')
        json.dump(res, open(f'{out}/meta.json', 'w'), indent=1)
    return res


with concurrent.futures.ThreadPoolExecutor(jobs) as ex:
    for r in ex.map(one, ids):
        print(f"{r['id']}: confirmed={r.get('confirmed')} caught={r.get('caught')} exit={r.get('check_exit')} demo={r.get('demo_on_clean_tree_exit')}/{r.get('demo_with_patch_exit')} "
              f"suite={r.get('suite_unchanged')} keys={r.get('n_violation_keys')} {r.get('error', '')}", flush=True)
