#!/usr/bin/env python3
"""tools/ledger_sync.py PID key-substring=commit[+commit] ... : move matching `known` entries of known_findings.json to `fixed`."""
import json, sys
pid = sys.argv[1]
extra = dict(a.rsplit('=', 1) for a in sys.argv[2:])
p = '/verif/known_findings.json'
d = json.load(open(p))
keep = []
for e in d['known']:
    hit = [c for sub, c in extra.items() if e['property'] == pid and sub in e['key']]
    if hit:
        c = hit[-1]
        d['fixed'].append({'property': pid, 'key': e['key'], 'commit': c, 'line': f"fixed: property={pid} {c} {e['what']}", 'witness': e.get('witness')})
        print('fixed', e['key'], c)
    else:
        keep.append(e)
d['known'] = keep
json.dump(d, open(p, 'w'), indent=1)
