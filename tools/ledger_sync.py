#!/usr/bin/env python3
"""tools/ledger_sync.py PID [key-substring=commit ...] : move every `known` entry of findings/PID.json whose patch (or key)
matches one of the PATCHMAP / given substrings to `fixed` with that commit.  PATCHMAP maps patch file stems to /repo commits."""
import json, sys, subprocess
PATCHMAP = json.load(open('/verif/tools/patchmap.json'))
pid = sys.argv[1]
extra = dict(a.split('=', 1) for a in sys.argv[2:])
p = f'/verif/findings/{pid}.json'
d = json.load(open(p))
keep = []
for e in d['known']:
    commits = []
    for stem, c in PATCHMAP.items():
        if e.get('patch') and stem in e['patch']:
            commits.append(c)
    for sub, c in extra.items():
        if sub in e['key']:
            commits = c.split('+')
    if commits and e.get('disposition') != 'known':
        c = '+'.join(dict.fromkeys(commits))
        d.setdefault('fixed', []).append({'property': pid, 'key': e['key'], 'commit': c,
                                          'line': f"fixed: property={pid} {c} {e['what']}", 'witness': e.get('witness')})
        print('fixed', e['key'], c)
    else:
        keep.append(e)
        print('KEPT ', e['key'], e.get('disposition'))
d['known'] = keep
json.dump(d, open(p, 'w'), indent=1)
