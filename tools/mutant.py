#!/usr/bin/env python3
"""tools/mutant.py <worktree> <PID[,PID..]> <relfile> <old> <new> [--tier quick] : apply a textual mutant in a scratch
worktree of /repo, run the check(s) against it (no evidence rewrite), restore the file.  Prints caught/missed."""
import os, subprocess, sys
wt, pids, rel, old, new = sys.argv[1:6]
tier = 'quick'
p = os.path.join(wt, rel)
src = open(p).read()
assert src.count(old) >= 1, f'pattern not found in {rel}: {old!r}'
open(p, 'w').write(src.replace(old, new, 1))
try:
    for pid in pids.split(','):
        env = dict(os.environ, VERIF_REPO=wt)
        r = subprocess.run(['/verif/check', pid, tier, '--no-evidence'], env=env, capture_output=True, text=True)
        keys = [l.split('#', 1)[1].strip()[:110] for l in r.stdout.splitlines() if l.startswith('VIOLATION')]
        print(f'{pid}: exit={r.returncode} {"CAUGHT" if r.returncode == 1 else "MISSED" if r.returncode == 0 else "INCONCLUSIVE"}  {rel}: {old!r} -> {new!r}')
        for k in keys[:4]:
            print('     ', k)
        if r.returncode == 2:
            print(r.stdout[-600:], r.stderr[-600:])
finally:
    open(p, 'w').write(src)
