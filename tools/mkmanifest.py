#!/usr/bin/env python3-vt
"""Regenerate MANIFEST.json from vp/props/*.py + tools/manifest_table.json, then validate against the schema."""
import json, os, subprocess, sys
V = os.path.dirname(os.path.dirname(os.path.abspath(__file__)))
sys.path.insert(0, V)
from vp import registry
table = json.load(open(os.path.join(V, 'tools', 'manifest_table.json')))
import glob
for f in sorted(glob.glob(os.path.join(V, 'tools', 'manifest.d', '*.json'))):
    table.update(json.load(open(f)))
props = [json.loads(l) for l in open(os.path.join(V, 'properties.jsonl'))]
checks, na = [], []
for p in props:
    pid = p['id']
    t = table.get(pid, {})
    if os.path.exists(os.path.join(V, 'vp', 'props', pid.lower() + '.py')) and not t.get('not_applicable'):
        checks.append({
            'property_id': pid,
            'quick_cmd': f'./check {pid} quick',
            'thorough_cmd': f'./check {pid} thorough',
            'evidence_file': f'evidence/{pid}.json',
            'replay_cmd_template': f'./check {pid} --replay {{path}}',
            'engine': 'vp-runtime-monitors',
            'level_claimed': {'category': registry.params(pid)['level'], 'text': t.get('text', ''), 'design_ref': f'DESIGN.md §2 {pid}'},
            'level_note': t.get('note', ''),
            'technique': t.get('technique', 'runtime monitoring: contracts + reference-model oracles on real executions'),
        })
    else:
        na.append({'property_id': pid, 'reason': t.get('not_applicable', 'check not built yet in this phase; will be claimed when its monitor exists')})
commits = subprocess.run(['git', '-C', '/repo', 'log', '--format=%h %s', '18b6546..HEAD'], capture_output=True, text=True).stdout.splitlines()
hooks = [c.split()[0] for c in commits if c.split(' ', 1)[1].startswith('verif-hook:')]
m = {
    'version': 1,
    'setup_cmd': '/venv/bin/python -c "import numpy, scipy, sys; assert sys.version_info[:2] >= (3, 12); print(numpy.__version__, scipy.__version__)"',
    'hooks': {'guard': 'PRYSM_VERIF', 'enable': 'no source hooks: monitors are attached from outside by vp/contracts.py when the check sets PRYSM_VERIF=1; nothing in /repo reads the variable',
              'baseline_off_cmd': 'cd /repo && /venv/bin/python -m pytest -ra -q -p no:cacheprovider --timeout=900 --continue-on-collection-errors',
              'source_commits': hooks, 'add_only': True},
    'engines': [{'name': 'vp-runtime-monitors', 'path': 'vp/', 'serves_properties': [c['property_id'] for c in checks],
                 'kind_free_text': 'in-process contracts on the real prysm callables + independent reference models + law monitors over generated workloads/histories; one worker process per shard; three-valued verdict'}],
    'checks': checks,
    'notes': 'exit 0 held / 1 VIOLATION / 2 INCONCLUSIVE. known_findings.json is the committed ledger. See DESIGN.md.',
    'not_applicable': na,
}
json.dump(m, open(os.path.join(V, 'MANIFEST.json'), 'w'), indent=1)
import jsonschema
jsonschema.validate(m, json.load(open('/root/.vp/MANIFEST.schema.json')))
print('MANIFEST ok:', len(checks), 'checks,', len(na), 'not yet claimed')
