#!/usr/bin/env python3
"""tools/markfixed.py <PID> <key> <commit> : move a ledger entry of findings/PID.json from known to fixed."""
import json, sys
pid, key, commit = sys.argv[1:4]
p = f'/verif/findings/{pid}.json'
d = json.load(open(p))
hit = [e for e in d['known'] if e['key'] == key]
assert hit, f'no known entry {key} in {p}: {[e["key"] for e in d["known"]]}'
for e in hit:
    d['known'].remove(e)
    d.setdefault('fixed', []).append({'property': pid, 'key': key, 'commit': commit,
                                      'line': f"fixed: property={pid} {commit} {e['what']}", 'witness': e.get('witness')})
json.dump(d, open(p, 'w'), indent=1)
print('ok', pid, key, commit)
