#!/usr/bin/env python3
"""tools/try_seed.py <seed-out-dir> <A|B|...> <PID[,PID]> [--tier quick|thorough] [--skip-suite]
Confirm a seeded change independently and run our checks on it, in scratch worktree /tmp/wt-eval-<PID>:
 1. demo passes on the clean tree, 2. patch applies, 3. repo test-suite still matches BASELINE stable_pass,
 4. demo fails with the patch, 5. ./check PID <tier> fires (exit 1)?  Worktree is removed afterwards."""
import os, subprocess, sys, shutil
out, tag, pids = sys.argv[1:4]
tier = 'quick'
if '--tier' in sys.argv:
    tier = sys.argv[sys.argv.index('--tier') + 1]
pid0 = pids.split(',')[0]
wt = f'/tmp/wt-eval-{pid0}-{tag}'
patch = os.path.join(out, f'patch_{tag}.diff') if not tag.endswith('.diff') else tag
if not os.path.exists(patch):
    patch = os.path.join(out, 'patch.diff')
demo = os.path.join(out, f'demo_{tag}.py')
if not os.path.exists(demo):
    demo = os.path.join(out, 'demo.py')
def sh(cmd, **kw):
    return subprocess.run(cmd, shell=True, capture_output=True, text=True, **kw)
sh(f'git -C /repo worktree remove --force {wt}')
r = sh(f'git -C /repo worktree add --detach {wt} HEAD')
assert r.returncode == 0, r.stderr
try:
    env = dict(os.environ, PYTHONPATH=wt, PYTHONDONTWRITEBYTECODE='1')
    d0 = subprocess.run(['/venv/bin/python', demo], env=env, cwd=wt, capture_output=True, text=True, timeout=900)
    print(f'demo on clean tree: exit={d0.returncode}')
    a = sh(f'git -C {wt} apply --3way {patch}')
    if a.returncode != 0:
        a = sh(f'git -C {wt} apply {patch}')
    print(f'patch applies: {a.returncode == 0} {a.stderr.strip()[:300]}')
    if a.returncode != 0:
        sys.exit(3)
    if '--skip-suite' not in sys.argv:
        b = subprocess.run(['/verif/tools/baseline.py'], env=dict(os.environ, VERIF_REPO=wt), capture_output=True, text=True)
        print('suite:', b.stdout.strip().splitlines()[0] if b.stdout else b.stderr[-300:])
    d1 = subprocess.run(['/venv/bin/python', demo], env=env, cwd=wt, capture_output=True, text=True, timeout=900)
    print(f'demo with patch: exit={d1.returncode}  {(d1.stdout + d1.stderr).strip().splitlines()[-1][:200] if (d1.stdout + d1.stderr).strip() else ""}')
    for pid in pids.split(','):
        c = subprocess.run(['/verif/check', pid, tier, '--no-evidence'], env=dict(os.environ, VERIF_REPO=wt), capture_output=True, text=True)
        v = [l for l in c.stdout.splitlines() if l.startswith(('VIOLATION', 'INCONCLUSIVE'))]
        print(f'check {pid} {tier}: exit={c.returncode} -> {"CAUGHT" if c.returncode == 1 else "MISSED" if c.returncode == 0 else "INCONCLUSIVE"}')
        for l in v[:5]:
            print('    ', l.split('#', 1)[-1].strip()[:200])
finally:
    sh(f'git -C /repo worktree remove --force {wt}')
