#!/usr/bin/env python3
"""Regenerate seeded/README.md (which checks catch which seeded changes) and LEDGER.md (human-readable ledger)."""
import glob, json, os
V = '/verif'
rows = []
for d in sorted(glob.glob(f'{V}/seeded/*/meta.json')):
    m = json.load(open(d))
    rows.append(m)
out = ['# Seeded changes (independent sub-agents) and what catches them', '',
       'Each change was produced by a fresh sub-agent that saw only the text of one property and its own scratch worktree of',
       '`/repo` (nothing from `/verif`).  `tools/seed_eval.py` re-confirmed each one in a scratch worktree (demo passes on the',
       'clean tree, patch applies, repository suite still matches BASELINE, demo fails with the patch) and ran the property\'s',
       'quick check against it.  `patch.diff` is rebased onto the `/repo` HEAD named in `meta.json`.', '',
       '| id | change | needs, to manifest | confirmed | quick check | first violation keys | note |', '|---|---|---|---|---|---|---|']
for m in rows:
    note = []
    if m.get('initially_missed'):
        note.append('**initially missed** → ' + m['initially_missed'])
    if m.get('ported'):
        note.append('ported to the repaired tree')
    if m.get('void'):
        note.append('VOID: ' + m['void'])
    keys = '<br>'.join(f'`{k}`' for k in m.get('violation_keys', [])[:3])
    out.append(f"| {m['id']} | {m['what']} | {m['needs']} | {'yes' if m.get('confirmed') else 'no'} | "
               f"{'CAUGHT' if m.get('caught') else 'missed'} ({m.get('n_violation_keys', 0)} keys) | {keys} | {'; '.join(note)} |")
n = len(rows)
c = sum(1 for m in rows if m.get('caught'))
out += ['', f'{n} changes, {sum(1 for m in rows if m.get("confirmed"))} confirmed, {c} caught by the quick tier of their own property.']
open(f'{V}/seeded/README.md', 'w').write('\n'.join(out) + '\n')

led = json.load(open(f'{V}/known_findings.json'))
for f in []:
    d = json.load(open(f))
    led['known'] += d.get('known', [])
    led['fixed'] += d.get('fixed', [])
L = ['# Ledger (generated from known_findings.json; do not edit)', '', '## Known findings (recorded, not repaired)', '']
for e in led['known']:
    L.append(f"* **{e['property']}** `{e['key']}` — {e['what']}")
L += ['', '## Fixed (one `fix:` commit in /repo each; suppress nothing)', '']
for e in sorted(led['fixed'], key=lambda e: (e['property'], e['key'])):
    L.append(f"* {e['line']}  [`{e['key']}`]")
open(f'{V}/LEDGER.md', 'w').write('\n'.join(L) + '\n')
print('seeds', n, 'caught', c, 'known', len(led['known']), 'fixed', len(led['fixed']))
