#!/usr/bin/env python3
"""tools/benign_eval.py [PID ...] [--tier quick] [--jobs N] [--no-suite]
False-alarm probes: property-preserving refactors written by independent sub-agents (/root/benign-backup/benign-<PID>/patch_{P,Q,R}.diff
+ check_*.py).  Each is applied in a scratch worktree; the author's own check must pass, the repo suite must match BASELINE, and
./check PID must stay silent (exit 0).  An alarm here is either a false alarm of ours or a bug the author introduced: triage by hand."""
import concurrent.futures, glob, json, os, subprocess, sys
SRC = '/verif/benign'
V = '/verif'
args = [a for a in sys.argv[1:] if not a.startswith('--')]
tier = sys.argv[sys.argv.index('--tier') + 1] if '--tier' in sys.argv else 'quick'
jobs = int(sys.argv[sys.argv.index('--jobs') + 1]) if '--jobs' in sys.argv else 5
pids = [a for a in args if a.startswith('C')] or sorted(os.path.basename(d) for d in glob.glob(f'{SRC}/C*'))
work = [(p, t) for p in pids for t in 'PQR' if os.path.exists(f'{SRC}/{p}/patch_{t}.diff')]


def sh(cmd):
    return subprocess.run(cmd, shell=True, capture_output=True, text=True)


def one(w):
    pid, tag = w
    src = f'{SRC}/{pid}'
    wt = f'/tmp/wt-{pid}-{tag}'
    sh(f'git -C /repo worktree remove --force {wt}')
    sh(f'git -C /repo worktree add --detach {wt} HEAD')
    res = {'id': f'{pid}-{tag}'}
    try:
        a = sh(f'git -C {wt} apply {src}/patch_{tag}.diff')
        if a.returncode != 0:
            a = sh(f'git -C {wt} apply --3way {src}/patch_{tag}.diff')
        res['applies'] = a.returncode == 0
        if not res['applies']:
            res['error'] = a.stderr[-200:]
            return res
        env = dict(os.environ, PYTHONPATH=wt, PYTHONDONTWRITEBYTECODE='1')
        chk = f'{src}/check_{tag}.py'
        if os.path.exists(chk):
            d = subprocess.run(['/venv/bin/python', chk], env=env, cwd=wt, capture_output=True, text=True, timeout=1800)
            res['author_check_exit'] = d.returncode
        if '--no-suite' not in sys.argv:
            b = subprocess.run([f'{V}/tools/baseline.py'], env=dict(os.environ, VERIF_REPO=wt), capture_output=True, text=True)
            res['suite_ok'] = b.returncode == 0
        c = subprocess.run([f'{V}/check', pid, tier, '--no-evidence'], env=dict(os.environ, VERIF_REPO=wt), capture_output=True, text=True)
        res['check_exit'] = c.returncode
        res['lines'] = [l[:260] for l in c.stdout.splitlines() if l.startswith(('VIOLATION', 'INCONCLUSIVE'))][:6]
    finally:
        sh(f'git -C /repo worktree remove --force {wt}')
    return res


with concurrent.futures.ThreadPoolExecutor(jobs) as ex:
    for r in ex.map(one, work):
        flag = 'SILENT' if r.get('check_exit') == 0 else 'ALARM' if r.get('check_exit') == 1 else str(r.get('check_exit'))
        print(f"{r['id']}: {flag} applies={r.get('applies')} author_check={r.get('author_check_exit')} suite={r.get('suite_ok')} {r.get('error', '')}", flush=True)
        for l in r.get('lines', []):
            print('     ', l.split('#', 1)[-1].strip(), flush=True)
