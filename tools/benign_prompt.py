#!/usr/bin/env python3
"""Prompt for an independent sub-agent producing PROPERTY-PRESERVING refactors (false-alarm probes) for property PID."""
import json, sys
pid = sys.argv[1]
root = f'/tmp/benign-{pid}'
p = [json.loads(l) for l in open('/verif/properties.jsonl') if json.loads(l)['id'] == pid][0]
print(f"""You are a careful software engineer helping to evaluate a verification effort for the open-source Python numerical optics library prysm (brandondube/prysm). You are given ONE semantic property that the library satisfies, and your own scratch git worktree of the library at {root}/wt. Work ONLY inside {root}/ — do not read or write anything under /verif, /repo or other /tmp directories.

THE PROPERTY ({pid}): {p['title']}
Statement: {p['statement']}
Quantified over: {p['quantifier']['text']}
Code it is anchored in: {', '.join(p['anchors']['files'])}

YOUR TASK: produce THREE different, realistic source changes (P, Q, R) to the code that implements this property which a maintainer could plausibly commit and which PRESERVE the property and every documented public behaviour, while changing as much as possible *underneath*: e.g. restructure or re-key an internal cache (correctly), rename private attributes / helpers / local variables, split or merge internal functions, replace a loop by a vectorised expression or vice versa, reorder or re-associate floating-point operations (results may move by normal rounding, i.e. relative 1e-13 or less in float64), change an intermediate dtype without losing accuracy, compute a quantity by a different but mathematically equivalent formula, add a correct fast path for a special case, add input validation that raises the same exception type for the same invalid inputs, return a copy where a view was returned (or the reverse) when the documentation does not promise which, change the order in which independent sub-results are computed, memoise something correctly (with a complete key and no shared mutable result). Make the three different in kind and touch the code paths the property is actually about. Each change must:
  1. keep the library importing and the existing test-suite result unchanged (exactly the same tests pass as on the unmodified worktree; some always fail offline because they download data — that set must not change);
  2. genuinely preserve the property above for ALL inputs in its quantifier (think about odd/even sizes, non-square arrays, 32-bit configuration, histories, unusual arguments) — you are trying to make a change that a too-strict or implementation-coupled checker would wrongly flag, NOT to sneak in a bug. If you are not sure a change is property-preserving, do not use it;
  3. come with a demonstration program check_P.py / check_Q.py / check_R.py (plain python, exits 0 when the property's observable behaviour is intact on a demanding set of inputs, non-zero otherwise) that passes BOTH on the unmodified worktree and with the change applied.

PRACTICALITIES
- The interpreter is /venv/bin/python (numpy 2.5, scipy present). IMPORTANT: a copy of prysm is installed in that venv pointing elsewhere, so ALWAYS run with PYTHONPATH set to your worktree, e.g.
    cd {root}/wt && PYTHONPATH={root}/wt /venv/bin/python -c "import prysm; print(prysm.__file__)"   # must print a path under {root}/wt
- Test-suite: cd {root}/wt && PYTHONPATH={root}/wt /venv/bin/python -m pytest -q -p no:cacheprovider --timeout=900 --continue-on-collection-errors -n 4 -ra 2>&1 | tail -60   (≈1 minute; no network). Run it once on the unmodified worktree first and save the failing list for comparison.
- Produce each patch with `git -C {root}/wt diff > {root}/out/patch_P.diff` (then `git -C {root}/wt checkout -- .` before the next one, so P, Q, R are independent patches against the same base). NEVER use 'git stash'.
- Write to {root}/out/: patch_P.diff, check_P.py, patch_Q.diff, check_Q.py, patch_R.diff, check_R.py and notes.md (for each: what was changed, why the property is preserved, commands run and results).
- Leave the worktree clean when done. Final message: a short summary of P, Q, R and confirmation of the three requirements for each.
""")
