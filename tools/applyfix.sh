#!/bin/sh
# tools/applyfix.sh <diff> <commit message (must start with fix:)>  -- apply one reviewed patch to /repo as its own commit
set -e
d="$1"; shift
git -C /repo apply --3way "/verif/proposed_fixes/$d" 2>/dev/null || git -C /repo apply "/verif/proposed_fixes/$d"
git -C /repo add -A
git -C /repo commit -q -m "$*"
git -C /repo log --oneline | head -1
