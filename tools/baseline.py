#!/venv/bin/python
"""Run the repository's pinned test-suite (guard OFF) and compare with /root/.vp/BASELINE.json stable_pass."""
import json, os, subprocess, sys, tempfile, xml.etree.ElementTree as ET
repo = os.environ.get('VERIF_REPO', '/repo')
base = json.load(open('/root/.vp/BASELINE.json'))
want = set(base['stable_pass'])
with tempfile.TemporaryDirectory() as d:
    x = os.path.join(d, 'j.xml')
    env = {k: v for k, v in os.environ.items() if k != 'PRYSM_VERIF'}
    env['PYTHONDONTWRITEBYTECODE'] = '1'
    p = subprocess.run(['/venv/bin/python', '-m', 'pytest', '-q', '-p', 'no:cacheprovider', '--timeout=900', '-x' if '-x' in sys.argv else '-q',
                        '--continue-on-collection-errors', '-n', '8', f'--junitxml={x}'], cwd=repo, env=env, capture_output=True, text=True)
    t = ET.parse(x)
    passed = set()
    for tc in t.iter('testcase'):
        ok = not any(c.tag in ('failure', 'error', 'skipped') for c in tc)
        if ok:
            passed.add(f"{tc.get('classname')}::{tc.get('name')}")
missing = sorted(want - passed)
print(f'baseline: {len(want)} stable_pass, {len(want & passed)} pass now, {len(missing)} regressed')
for m in missing[:40]:
    print('  REGRESSED', m)
sys.exit(1 if missing else 0)
