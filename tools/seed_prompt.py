#!/usr/bin/env python3
"""Print the prompt for an independent seeded-change sub-agent for property PID (gets only the property text)."""
import json, sys
pid = sys.argv[1]
rnd = sys.argv[2] if len(sys.argv) > 2 else ''
root = f'/tmp/seed{rnd}-{pid}'
p = [json.loads(l) for l in open('/verif/properties.jsonl') if json.loads(l)['id'] == pid][0]
extra3 = " In this round prefer changes that a careful reviewer and a thorough randomised checker could both overlook: a defect that needs TWO conditions at once (e.g. a particular argument form AND a particular size class; a non-default option AND a second call), that lives on a rarely used public form of the API (the Wavefront / Interferogram / RichData method versus the plain function, keyword versus positional arguments, tuple versus scalar versus array-valued parameters, out-of-place versus in-place variants, a documented optional argument nobody passes), that corrupts something only for a later DIFFERENT public routine (shared helpers, shared caches, shared module state, an argument that is modified for the caller), that depends on dtype, memory layout or container type of an argument, or that only appears at the edge of the documented range (sizes 1, 2 and 3, prime sizes, very large orders, zero or negative-but-legal parameters, angles at multiples of 90 or 180 degrees, values exactly on a boundary). Avoid anything that a single call with generic random inputs would expose."
extra = "" if not rnd else extra3 if rnd == "3" else " In this round prefer the kinds of change that are hardest to notice: behaviour that depends on the HISTORY of earlier calls or on object state (caches, memoised helpers, attributes changed after construction, module globals, lazily computed fields), on a CONFIGURATION (32-bit precision via prysm.conf.config.precision = 32, a backend shim, a non-default keyword argument, the Wavefront/Interferogram method form versus the plain function form), on the INTERACTION of two public routines, or on a narrow numeric regime (large orders, extreme aspect ratios, values near a branch point). Avoid a plain wrong-constant edit that any single call with generic inputs would expose."
print(f"""You are a careful software engineer helping to evaluate a verification effort for the open-source Python numerical optics library prysm (brandondube/prysm). You are given ONE semantic property that the library is supposed to satisfy, and your own scratch git worktree of the library at {root}/wt. Work ONLY inside {root}/ — do not read or write anything under /verif, /repo or other /tmp directories (independence from the verification machinery is the whole point).

THE PROPERTY ({pid}): {p['title']}
Statement: {p['statement']}
Quantified over: {p['quantifier']['text']}

YOUR TASK: produce TWO different, realistic source changes to the library (call them A and B; each a small patch a tired maintainer could plausibly commit: a refactor slip, an off-by-one, a wrong branch for an unusual input class, a cache key that forgets a field, two cooperating sites that each look fine alone, a sign/transposition/unit error on a rarely used path, ...) such that for EACH change:
  1. the library still imports and the existing test-suite result is unchanged: exactly the same tests pass as on the unmodified worktree (some tests always fail offline because they download sample data; that set must simply not change);
  2. the property above is genuinely broken by the change (observable wrong behaviour at the public API, not just a style change);
  3. the breakage needs something specific to manifest — a particular input class (e.g. non-square or odd-sized arrays, a particular parameter range, an unusual option), a multi-step sequence of operations / history, a particular configuration, a fault at a particular point — NOT something ordinary use or the simplest call would expose at once;
  4. you provide a small demonstration program demo_A.py / demo_B.py (plain python, exits non-zero with a clear message when the property is violated, exits 0 otherwise) that FAILS with the change applied and PASSES on the unmodified worktree.
Make A and B different in kind (different functions / mechanisms / input classes).{extra} Do not weaken or edit tests. Do not add new files to the library other than what the patch needs.

PRACTICALITIES
- The interpreter is /venv/bin/python (numpy 2.5, scipy present). IMPORTANT: a copy of prysm is installed in that venv pointing elsewhere, so ALWAYS run with PYTHONPATH set to your worktree so that YOUR copy is imported, e.g.
    cd {root}/wt && PYTHONPATH={root}/wt /venv/bin/python -c "import prysm; print(prysm.__file__)"   # must print a path under {root}/wt
- Test-suite: cd {root}/wt && PYTHONPATH={root}/wt /venv/bin/python -m pytest -q -p no:cacheprovider --timeout=900 --continue-on-collection-errors -n 4 -ra 2>&1 | tail -60    (≈1 minute). Run it once on the unmodified worktree first and save the list of failing tests for comparison; there is no network.
- Produce each patch with `git -C {root}/wt diff > {root}/out/patch_A.diff` (then `git -C {root}/wt checkout -- .` before starting B so that A and B are independent patches against the same base).
- Write to {root}/out/: patch_A.diff, demo_A.py, patch_B.diff, demo_B.py and notes.md (for each change: what it breaks, exactly what is needed for it to manifest, the commands you ran and their results: test-suite same as baseline yes/no, demo fails with / passes without).
- NEVER use 'git stash' (the stash is shared between worktrees of other people); to switch between patched and clean use 'git diff > file', 'git checkout -- .', 'git apply file'.
- Leave the worktree clean (git checkout -- .) when done. Your final message: a short summary of A and B (what/where/what it needs to manifest) and confirmation of the four requirements for each.
""")
