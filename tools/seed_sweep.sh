#!/bin/sh
# tools/seed_sweep.sh "<seeds>" [tier] : run every check for several VERIF_SEED values without rewriting evidence; print anything that is not `held`.
tier=${2:-quick}
for s in $1; do
  for p in C01 C02 C03 C04 C05 C06 C07 C08 C09 C10 C11 C12 C13 C14 C15 C16 C17 C18 C19 C20; do
    out=$(/verif/check $p $tier --seed $s --no-evidence 2>&1); rc=$?
    echo "$out" | head -1 | cut -c1-110
    if [ $rc -ne 0 ]; then echo "!!! $p seed=$s exit=$rc"; echo "$out" | grep -E "VIOLATION|INCONCLUSIVE" | cut -c1-300; fi
  done
done
