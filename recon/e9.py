import numpy as np
from prysm import propagation as P
rng=np.random.default_rng(3)
cn=lambda s:rng.standard_normal(s)+1j*rng.standard_normal(s)
ip=lambda a,b: np.vdot(a,b)
wvl=0.5; efl=100.; dx=0.1
for shp,out in [((8,8),(8,8)),((9,9),(9,9)),((6,8),(6,8))]:
    x=cn(shp); y=cn(out)
    for sh in [(0,0),(0.3,-0.2)]:
        Ax=P.unfocus_fixed_sampling(y,4.0,efl,wvl,dx,shp,shift=sh)
        Ahy=P.unfocus_fixed_sampling_backprop(x,4.0,efl,wvl,dx,out,shift=sh)
        print('ufs adj',shp,out,sh, abs(ip(x,Ax)-ip(Ahy,y)))
# optym
from prysm.x.optym.activation import Softmax, GumbelSoftmax, DiscreteEncoder, Tanh, Arctan, Softplus, Sigmoid
from prysm.x.optym import cost
from prysm.x.optym.operators import SpatialGradient2D
x=rng.standard_normal((3,4,5)); g=rng.standard_normal((3,4,5)); d=rng.standard_normal((3,4,5)); h=1e-6
s=Softmax(); f=lambda x:(g*Softmax().forward(x)).sum()
s.forward(x); ana=(s.backprop(g)*d).sum(); num=(f(x+h*d)-f(x-h*d))/(2*h); print('softmax',ana,num)
gs=GumbelSoftmax(tau=0.7); gs.rng=np.random.default_rng(5)
def fg(x):
    q=GumbelSoftmax(tau=0.7); q.rng=np.random.default_rng(5); return (g*q.forward(x)).sum()
gs.forward(x); ana=(gs.backprop(g)*d).sum(); num=(fg(x+h*d)-fg(x-h*d))/(2*h); print('gumbel',ana,num)
lv=np.array([0,1,3,7,9]); 
def mk():
    q=GumbelSoftmax(tau=0.7); q.rng=np.random.default_rng(5); return DiscreteEncoder(q,lv)
x2=rng.standard_normal((6,5)); g2=rng.standard_normal(6); d2=rng.standard_normal((6,5))
e=mk(); e.forward(x2); ana=(e.backprop(g2)*d2).sum(); fe=lambda x:(g2*mk().forward(x)).sum(); num=(fe(x2+h*d2)-fe(x2-h*d2))/(2*h); print('encoder 2D',ana,num)
try:
    e=mk(); e.forward(x); gg=rng.standard_normal((3,4)); ana=(e.backprop(gg)*d).sum(); fe=lambda x:(gg*mk().forward(x)).sum(); num=(fe(x+h*d)-fe(x-h*d))/(2*h); print('encoder 3D',ana,num)
except Exception as ex: print('encoder 3D EXC',repr(ex))
for cls in [Tanh,Arctan,Softplus,Sigmoid]:
    n=cls(a=1.7,x0=0.3,y0=-0.4); xx=rng.standard_normal(7); xx0=xx.copy()
    ana=n.backprop(xx); num=(n.forward(xx0+h)-n.forward(xx0-h))/(2*h); print(cls.__name__, abs(ana-num).max(), 'mutated input' if not np.array_equal(xx,xx0) else '')
M=rng.random((5,6))+.1; D=rng.random((5,6))+.1; dd=rng.standard_normal((5,6)); mask=rng.random((5,6))>0.3
for name,fn in [('mse',cost.mean_square_error),('nll',cost.negative_loglikelihood)]:
    for mk_ in [None,mask]:
        MM=M*0.8 if name=='nll' else M; DD=D*0.8 if name=='nll' else D
        c,gr=fn(MM,DD,mk_); num=(fn(MM+h*dd,DD,mk_)[0]-fn(MM-h*dd,DD,mk_)[0])/(2*h); print(name, mk_ is not None, (gr*dd).sum(), num)
for mk_ in [None,mask]:
    c,gr=cost.bias_and_gain_invariant_error(M,D,mk_); num=(cost.bias_and_gain_invariant_error(M+h*dd,D,mk_)[0]-cost.bias_and_gain_invariant_error(M-h*dd,D,mk_)[0])/(2*h); print('bgi',mk_ is not None,(gr*dd).sum(),num)
sg=SpatialGradient2D()
for shp in [(6,6),(5,8),(8,5)]:
    a=rng.standard_normal(shp); b=rng.standard_normal(shp)
    try:
        print('gradx adj',shp, abs((b*sg.forward_x(a)).sum()-(sg.backprop_x(b)*a).sum()), 'grady adj', abs((b*sg.forward_y(a)).sum()-(sg.backprop_y(b)*a).sum()))
    except Exception as ex: print('grad',shp,'EXC',repr(ex))
