"""Probe: order forms, parameter forms, very high orders on the current tree."""
import sys, warnings
sys.path.insert(0, sys.argv[1] if len(sys.argv) > 1 else "/repo")
import numpy as np
warnings.simplefilter('ignore')
import prysm.polynomials as P
from prysm.polynomials import qpoly

FAMS = {
    'jacobi': (0.25, -0.25), 'legendre': (), 'cheby1': (), 'cheby2': (), 'cheby3': (), 'cheby4': (),
    'hermite_He': (), 'hermite_H': (), 'laguerre': (0.5,), 'dickson1': (0.75,), 'dickson2': (0.75,), 'Qbfs': (), 'Qcon': (),
}
OFORMS = {'int64': np.int64, 'int32': np.int32, 'uint32': np.uint32, 'uint64': np.uint64, 'intp': np.intp, '0d-int64': lambda n: np.array(n),
          '0d-int32': lambda n: np.array(n, dtype=np.int32), 'uint16': np.uint16, 'pybool': bool}


def dom(fam):
    if fam.startswith('hermite'):
        return np.array([-1.5, 0.25, 1.75])
    if fam.startswith('laguerre'):
        return np.array([0.5, 2.25, 6.0])
    if fam.startswith('dickson'):
        return np.array([-1.5, 0.25, 1.75])
    if fam.startswith('Q'):
        return np.array([0.0, 0.21875, 0.84375, 1.0])
    return np.array([-1.0, -0.34375, 0.40625, 1.0])


def cmp(a, b, tol=1e-12):
    a = np.asarray(a, dtype=float); b = np.asarray(b, dtype=float)
    if a.shape != b.shape:
        return 'shape'
    with np.errstate(all='ignore'):
        sc = max(1.0, float(np.nanmax(np.abs(b))) if b.size else 1.0)
        if not np.array_equal(np.isfinite(a), np.isfinite(b)):
            return 'NONFINITE'
        e = np.nanmax(np.abs(a - b)) if np.isfinite(a).any() else 0
    return 'ok' if e <= tol * sc else 'VAL %.2g' % (e / sc)


def summ(r):
    s = sorted(set(r))
    return 'ok' if s == ['ok'] else ','.join(s)


print('=== order forms')
for fam, par in FAMS.items():
    x = dom(fam)
    for kind in ('', '_der'):
        single = getattr(P, fam + kind, None)
        seq = getattr(P, fam + kind + '_seq', None)
        if single is None:
            continue
        for lab, mk in OFORMS.items():
            rs, rq = [], []
            for n in (0, 1, 2, 3, 7):
                if lab == 'pybool' and n > 1:
                    continue
                try:
                    rs.append(cmp(single(mk(n), *par, x), single(n, *par, x)))
                except Exception as e:
                    rs.append('EXC ' + type(e).__name__)
            for ns in ([0, 1, 2, 3], [2, 7], [1], [0]):
                if lab == 'pybool':
                    continue
                for clab, cont in (('list', [mk(n) for n in ns]), ('arr', np.array(ns, dtype=mk(1).dtype))):
                    try:
                        rq.append(cmp(seq(cont, *par, x), seq(ns, *par, x)))
                    except Exception as e:
                        rq.append(f'EXC-{clab} ' + type(e).__name__)
            print(f'{fam+kind:16s} n-as-{lab:9s} single[{summ(rs)}] seq[{summ(rq)}]')

print('=== two-index order forms')
r = np.array([0.0, 0.21875, 0.84375, 1.0]); t = np.array([0.5, 1.75, 3.0, 5.5])
for lab, mk in OFORMS.items():
    if lab == 'pybool':
        continue
    out = []
    for fn, terms in (('zernike_nm', [(4, 2), (5, -3), (6, 0), (3, 1)]), ('zernike_nm_der', [(4, 2), (5, -3), (6, 0), (3, 1)]), ('Q2d', [(3, 2), (5, -3), (6, 0), (0, 1)])):
        rs = []
        f = getattr(P, fn)
        for n, m in terms:
            if 'uint' in lab and m < 0:
                continue
            try:
                rs.append(cmp(f(mk(n), mk(m), r, t), f(n, m, r, t)))
            except Exception as e:
                rs.append('EXC ' + type(e).__name__)
        out.append(f'{fn}[{summ(rs)}]')
        # mixed: n unsigned, m python int
        rs = []
        for n, m in terms:
            try:
                rs.append(cmp(f(mk(n), m, r, t), f(n, m, r, t)))
            except Exception as e:
                rs.append('EXC ' + type(e).__name__)
        out.append(f'{fn}-n-only[{summ(rs)}]')
    for fn, terms in (('zernike_nm_seq', [(4, 2), (5, -3), (6, 0), (3, 1)]), ('zernike_nm_der_seq', [(4, 2), (5, -3), (6, 0), (3, 1)]), ('Q2d_seq', [(3, 2), (5, -3), (6, 0), (0, 1)])):
        f = getattr(P, fn)
        tt = [(n, m) for n, m in terms if not ('uint' in lab and m < 0)]
        rs = []
        for clab, cont in (('list', [(mk(n), mk(m)) for n, m in tt]), ('arr', np.array(tt, dtype=mk(1).dtype))):
            try:
                rs.append(cmp(f(cont, r, t), f(tt, r, t)))
            except Exception as e:
                rs.append(f'EXC-{clab} ' + type(e).__name__)
        out.append(f'{fn}[{summ(rs)}]')
    try:
        out.append('xy[' + cmp(P.xy(mk(2), mk(3), r, t, cartesian_grid=False), P.xy(2, 3, r, t, cartesian_grid=False)) + ']')
    except Exception as e:
        out.append('xy[EXC ' + type(e).__name__ + ']')
    try:
        out.append('xy_seq[' + cmp(P.xy_seq([(mk(2), mk(3)), (mk(0), mk(1))], r, t, cartesian_grid=False), P.xy_seq([(2, 3), (0, 1)], r, t, cartesian_grid=False)) + ']')
    except Exception as e:
        out.append('xy_seq[EXC ' + type(e).__name__ + ']')
    try:
        out.append('hopkins[' + cmp(P.hopkins(mk(2), mk(3), mk(1), r, t, r), P.hopkins(2, 3, 1, r, t, r)) + ']')
    except Exception as e:
        out.append('hopkins[EXC ' + type(e).__name__ + ']')
    print(f'n,m-as-{lab:9s}', ' '.join(out))

print('=== nm containers')
tt = [(4, 2), (5, -3), (6, 0), (3, 1)]
for fn in ('zernike_nm_seq', 'zernike_nm_der_seq', 'Q2d_seq'):
    f = getattr(P, fn)
    for clab, mk in (('generator', lambda: (e for e in tt)), ('iter', lambda: iter(tt)), ('ndarray', lambda: np.array(tt)), ('tuple', lambda: tuple(tt)), ('zip', lambda: zip(*zip(*tt))),
                     ('dict-keys', lambda: dict.fromkeys(tt).keys())):
        try:
            print(fn, clab, cmp(f(mk(), r, t), f(tt, r, t)))
        except Exception as e:
            print(fn, clab, 'EXC', type(e).__name__, str(e)[:60])
for clab, mk in (('generator', lambda: (e for e in [(2, 3), (0, 1)])), ('ndarray', lambda: np.array([(2, 3), (0, 1)])), ('tuple', lambda: ((2, 3), (0, 1)))):
    try:
        print('xy_seq', clab, cmp(P.xy_seq(mk(), r, t, cartesian_grid=False), P.xy_seq([(2, 3), (0, 1)], r, t, cartesian_grid=False)))
    except Exception as e:
        print('xy_seq', clab, 'EXC', type(e).__name__, str(e)[:60])
for fam, par in FAMS.items():
    x = dom(fam)
    for kind in ('', '_der'):
        seq = getattr(P, fam + kind + '_seq', None)
        if seq is None:
            continue
        for clab, mk in (('generator', lambda: (n for n in [1, 3, 4])), ('iter', lambda: iter([1, 3, 4])), ('range', lambda: range(1, 4)), ('dict-keys', lambda: {1: 0, 3: 0, 4: 0}.keys()), ('set', lambda: {1, 3, 4})):
            ref = seq([1, 3, 4] if clab != 'range' else [1, 2, 3], *par, x)
            try:
                res = cmp(seq(mk(), *par, x), ref)
            except Exception as e:
                res = 'EXC ' + type(e).__name__
            if res != 'ok':
                print(fam + kind + '_seq', 'orders-as-' + clab, res)

print('=== parameter forms')
for fam, plist in (('jacobi', [(0.25, -0.25), (0.5, -0.5), (1.0, 2.0), (0.0, 0.0), (-0.5, 0.5), (0.0, -1.0), (-0.75, -0.25), (0.25, -1.25 + 1)]), ('laguerre', [(0.5,), (2.0,), (0.0,)]), ('dickson1', [(0.75,), (1.0,), (0.0,)]), ('dickson2', [(0.75,), (-1.0,), (0.0,)])):
    x = dom(fam)
    for par in plist:
        for plab, mk in (('f32', np.float32), ('f64', np.float64), ('int', lambda v: int(v) if float(v).is_integer() else None), ('0d', lambda v: np.array(v)), ('fraction', lambda v: __import__('fractions').Fraction(v)),
                         ('np-int64', lambda v: np.int64(v) if float(v).is_integer() else None)):
            pp = tuple(mk(v) for v in par)
            if any(v is None for v in pp):
                continue
            for kind in ('', '_der', '_seq', '_der_seq'):
                f = getattr(P, fam + kind, None)
                if f is None:
                    continue
                rs = []
                for n in ([0, 1, 2, 3, 7] if 'seq' not in kind else [[0, 1, 2, 3, 7], [2, 7]]):
                    try:
                        rs.append(cmp(f(n, *pp, x), f(n, *par, x), 1e-12 if plab != 'f32' else 1e-12))
                    except Exception as e:
                        rs.append('EXC ' + type(e).__name__)
                if summ(rs) != 'ok':
                    print(f'{fam+kind:16s} params={par} as {plab}: {summ(rs)}')
print('(parameter forms not listed are ok)')

print('=== high orders: single vs seq, finite?')
for fam, par in FAMS.items():
    x = dom(fam)
    for kind in ('', '_der'):
        single = getattr(P, fam + kind, None)
        seq = getattr(P, fam + kind + '_seq', None)
        if single is None:
            continue
        for n in (100, 150, 170, 171, 172, 200, 256, 400):
            with np.errstate(all='ignore'):
                try:
                    s = np.asarray(single(n, *par, x), dtype=float)
                    q = np.asarray(seq([n], *par, x), dtype=float)[0]
                    q2 = np.asarray(seq([0, 5, n - 1, n], *par, x), dtype=float)[-1]
                    print(f'{fam+kind:16s} n={n:4d} single finite={np.isfinite(s).all()} max|s|={np.nanmax(np.abs(s)):.3g} seq-vs-single {cmp(q, s)} / {cmp(q2, s)}')
                except Exception as e:
                    print(f'{fam+kind:16s} n={n:4d} EXC {type(e).__name__} {str(e)[:50]}')
