import numpy as np
from prysm import propagation as P
from prysm.propagation import Wavefront
from prysm.fttools import mdft
rng=np.random.default_rng(3)
cn=lambda s:rng.standard_normal(s)+1j*rng.standard_normal(s)
wvl=0.5; efl=100.; dx=0.1
# to_fpm_and_back with full-band all-pass mask returns the field
for n in [8,9]:
    a=cn((n,n)); D=n*dx
    # full band: fpm_dx = lam f / D / Q... samples = n*Q (Q=1 -> critically sampled band)
    for q in [1,2]:
        fdx=wvl*efl/D/q; ns=n*q
        for meth in ['mdft','czt']:
            for sh in [(0,0),(fdx*1.0,0.0)]:
                try:
                    o=P.to_fpm_and_back(a,dx,efl,wvl,np.ones((ns,ns)),fdx,shift=sh,method=meth)
                    print(n,q,meth,sh,'err',abs(o-a).max(), 'mod err', abs(abs(o)-abs(a)).max())
                except Exception as e: print(n,q,meth,sh,'EXC',repr(e))
# babinet: mask + complement sum to unmasked
n=8; a=cn((n,n)); D=n*dx; fdx=wvl*efl/D/2; ns=12
m=rng.random((ns,ns))
w=Wavefront(a,wvl,dx)
full=w.to_fpm_and_back(efl,np.ones((ns,ns)),fdx).data
p1=w.to_fpm_and_back(efl,m,fdx).data; p2=w.to_fpm_and_back(efl,1-m,fdx).data
print('additive', abs(p1+p2-full).max())
b=w.babinet(efl,None,m,fdx).data   # = a - tofpm(1-m)
print('babinet vs a - tfb(1-m)', abs(b-(a-p2)).max())
# embedding invariance
for meth in ['mdft','czt']:
    a=cn((6,6)); big=np.zeros((10,10),complex); big[2:8,2:8]=a   # origin 3 -> 5 ok
    f1=P.focus_fixed_sampling(a,dx,efl,wvl,3.0,(9,9),method=meth); f2=P.focus_fixed_sampling(big,dx,efl,wvl,3.0,(9,9),method=meth)
    print(meth,'embed', abs(f1-f2).max(), abs(abs(f1)-abs(f2)).max())
    # transposition
    a=cn((6,6)); f1=P.focus_fixed_sampling(a,dx,efl,wvl,3.0,(9,7),shift=(1.,2.),method=meth); f2=P.focus_fixed_sampling(a.T.copy(),dx,efl,wvl,3.0,(7,9),shift=(2.,1.),method=meth)
    print(meth,'transpose', abs(f1.T-f2).max())
    a=cn((6,8)); f1=P.focus_fixed_sampling(a,dx,efl,wvl,3.0,(9,7),method=meth); f2=P.focus_fixed_sampling(a.T.copy(),dx,efl,wvl,3.0,(7,9),method=meth)
    print(meth,'transpose nonsq', abs(f1.T-f2).max())
