import numpy as np, itertools, warnings
from prysm import fttools, propagation
from prysm.fttools import mdft, czt, pad2d, crop_center, fftrange
from prysm.conf import config

def ref_dft(a, Q, out, shift=(0,0), fwd=True, shift_input=False):
    a = np.asarray(a)
    Na, Ma = a.shape
    if not hasattr(Q,'__len__'): Q=(Q,Q)
    if not hasattr(out,'__len__'): out=(out,out)
    Nb, Mb = out
    y = np.arange(Na)-Na//2; x=np.arange(Ma)-Ma//2
    v = np.arange(Nb)-Nb//2 - shift[1]; u=np.arange(Mb)-Mb//2 - shift[0]
    s = -1 if fwd else 1
    Ey = np.exp(s*2j*np.pi*np.outer(v,y)/(Na*Q[0]))
    Ex = np.exp(s*2j*np.pi*np.outer(x,u)/(Ma*Q[1]))
    return Ey@a@Ex/np.sqrt(Na*Q[0]*Ma*Q[1])

rng=np.random.default_rng(0)
bad=[]
for (m,n) in [(4,4),(5,5),(4,5),(5,4),(6,9),(8,8),(7,7)]:
  for out in [(4,4),(5,5),(4,5),(7,6),(9,9),(8,8)]:
    for Q in [1,2,1.5,(1.3,2.2)]:
      for shift in [(0,0),(1,0),(0,2),(0.5,-1.25)]:
        a = rng.standard_normal((m,n))+1j*rng.standard_normal((m,n))
        r = ref_dft(a,Q,out,shift)
        d = mdft.dft2(a,Q,out,shift)
        c = czt.czt2(a,Q,out,shift)
        em = np.abs(np.abs(d)-np.abs(r)).max(); ec=np.abs(np.abs(c)-np.abs(r)).max()
        emc = np.abs(d-r).max(); ecc=np.abs(c-r).max()
        if em>1e-9 or ec>1e-9 or (shift==(0,0) and (emc>1e-9 or ecc>1e-9)):
            bad.append(((m,n),out,Q,shift,'mdft_mod%.1e'%em,'czt_mod%.1e'%ec,'mdft_c%.1e'%emc,'czt_c%.1e'%ecc))
print(len(bad))
import collections
cnt=collections.Counter()
for b in bad:
    sq = b[0][0]==b[0][1]; 
    cnt[(('sq' if sq else 'nonsq'), 'mdft_bad' if float(b[4][8:])>1e-9 else 'mdft_ok', 'czt_bad' if float(b[5][7:])>1e-9 else 'czt_ok')]+=1
print(cnt)
for b in bad[:40]: print(b)
