import numpy as np, warnings, time
import numpy
numpy.trapz = numpy.trapezoid   # emulate numpy 1.x API to look past the AttributeError
from prysm.interferogram import Interferogram, psd, bandlimited_rms, make_window
from prysm.coordinates import cart_to_polar
warnings.simplefilter('ignore')
rng=np.random.default_rng(0)
for shp in [(16,16),(15,15),(12,18),(17,12)]:
    z=rng.standard_normal(shp); dx=0.37
    i=Interferogram(z.copy(),dx=dx)
    p=i.psd(); r=p.r
    W=make_window(z,dx,None); target=((z*W)**2).sum()/(W**2).sum()
    dfx=1/(shp[1]*dx); dfy=1/(shp[0]*dx)
    rs=np.unique(np.round(r.ravel(),12)); 
    mid=lambda a,b:(a+b)/2
    e1=mid(rs[len(rs)//3],rs[len(rs)//3+1]); e2=mid(rs[2*len(rs)//3],rs[2*len(rs)//3+1]); top=r.max()*1.01
    a=i.bandlimited_rms(flow=0,fhigh=e1); b=i.bandlimited_rms(flow=e1,fhigh=e2); c=i.bandlimited_rms(flow=e2,fhigh=top); full=i.bandlimited_rms(flow=0,fhigh=top); ab=i.bandlimited_rms(flow=0,fhigh=e2)
    P=p.data
    rim=(P[0,:].sum()+P[-1,:].sum()+P[:,0].sum()+P[:,-1].sum())*dfx*dfy
    print(shp,'additive',a*a+b*b+c*c-full*full,'mono',ab>=a,'full^2',full**2,'target',target,'diff',abs(full**2-target),'rim bound',rim, 'ratio full/target',full**2/target, 'dfx/dfy',dfx/dfy)
    # periods interface
    f1=i.bandlimited_rms(wllow=1/e2,wlhigh=1/e1); print('   period iface',f1-b)
