import numpy as np, warnings, types
from prysm.convolution import conv, apply_transfer_functions
from prysm import otf, detector, bayer, thinfilm as tf
from prysm import mathops
warnings.simplefilter('ignore')
rng=np.random.default_rng(0)
for shp in [(6,6),(7,7),(6,9),(5,8)]:
    o=rng.random(shp); h=rng.random(shp); d=np.zeros(shp); d[shp[0]//2,shp[1]//2]=1
    print(shp,'impulse id',abs(conv(o,d)-o).max(),'commut',abs(conv(o,h)-conv(h,o)).max(),'energy',conv(o,h).sum()-o.sum()*h.sum(), end=' ')
    d2=np.zeros(shp); d2[shp[0]//2+1,shp[1]//2-2]=1; print('shift',abs(conv(o,d2)-np.roll(o,(1,-2),(0,1))).max(), end=' ')
    ones=np.ones(shp)
    print('atf ones noshift',abs(apply_transfer_functions(o,1.,[ones])-o).max(),'shift',abs(apply_transfer_functions(o,1.,[ones],shift=True)-o).max(), end=' ')
    t1=rng.random(shp)+1j*rng.random(shp); t2=rng.random(shp)
    print('product', abs(apply_transfer_functions(o,1.,[t1,t2])-apply_transfer_functions(o,1.,[t1*t2])).max())
    psf=rng.random(shp); m=otf.mtf_from_psf(psf,1.).data; O=otf.otf_from_psf(psf,1.).data; ph=otf.ptf_from_psf(psf,1.).data
    c=(shp[0]//2,shp[1]//2)
    # point symmetry about c
    idx=lambda a:a
    def psym(a):
        n0,n1=a.shape; out=0
        for i in range(n0):
            for j in range(n1):
                i2,j2=(2*c[0]-i)%n0,(2*c[1]-j)%n1
                out=max(out,abs(a[i,j]-a[i2,j2]))
        return out
    print('   mtf dc',m[c],'max',m.max(),'psym',psym(m),'otf consistency',abs(abs(O)-m).max(),abs(np.angle(O)-ph).max())
# detector
class FakeRandom:
    @staticmethod
    def poisson(lam,size=None): return np.broadcast_to(np.asarray(lam,dtype=float),size).copy()
    @staticmethod
    def normal(loc,scale,size=None): return np.zeros(size)
class Proxy:
    def __init__(s,src): s._s=src
    def __getattr__(s,k):
        if k=='random': return FakeRandom
        return getattr(s._s,k)
real=mathops.np._srcmodule
mathops.np._srcmodule=Proxy(real)
try:
    for bits in [8,12,16]:
        det=detector.Detector(dark_current=0,read_noise=0,bias=10,fwc=1e9,conversion_gain=2.,bits=bits,exposure_time=1.)
        img=np.array([[0,100,2**bits*2-20-2, 2**bits*2-20, 2**bits*2+1000,1e7]],dtype=float)
        out=det.expose(img); print('bits',bits,out,out.dtype)
    det=detector.Detector(0,0,0,1e9,1.,8,1.,prnu=np.ones((2,3)))
    try: print(det.expose(np.ones((2,3))*5))
    except Exception as e: print('prnu 2D EXC',repr(e)[:80])
    det=detector.Detector(0,0,0,1e9,1.,8,1.,dcnu=np.ones((2,3)))
    print(det.expose(np.ones((2,3))*5,frames=2).shape)
finally:
    mathops.np._srcmodule=real
a=rng.random((4,6,8)); b=detector.bindown(a,(2,3,4),'sum'); print('bin sum',b.sum()-a.sum(), detector.bindown(a,2,'avg').mean()-a.mean())
y=rng.random(b.shape); print('adjoint', (detector.bindown(a,(2,3,4),'avg')*y).sum()-(a*detector.tile(y,(2,3,4),'sum')).sum(), (detector.bindown(a,(2,3,4),'sum')*y).sum()-(a*detector.tile(y,(2,3,4),'avg')).sum())
for cfa in ['rggb','bggr']:
    mo=rng.random((6,8)); pl=bayer.decomposite_bayer(mo,cfa); print(cfa,'recomp',abs(bayer.recomposite_bayer(*pl,cfa=cfa)-mo).max(), end=' ')
    rgb=bayer.demosaic_malvar(mo,cfa)
    R,G,B=rgb[...,0],rgb[...,1],rgb[...,2]
    tl,tr,bl,br=bayer.top_left,bayer.top_right,bayer.bottom_left,bayer.bottom_right
    first,last=(R,B) if cfa=='rggb' else (B,R)
    print('native', abs(first[tl]-mo[tl]).max(),abs(G[tr]-mo[tr]).max(),abs(G[bl]-mo[bl]).max(),abs(last[br]-mo[br]).max())
# thinfilm
n0,n1=1.0,1.5
for th in [0,20,45,70]:
    t0=np.radians(th); t1=tf.snell_aor(n0,n1,th).real
    rs,ts,rp,tp=tf.fresnel_rs(n0,n1,t0,t1),tf.fresnel_ts(n0,n1,t0,t1),tf.fresnel_rp(n0,n1,t0,t1),tf.fresnel_tp(n0,n1,t0,t1)
    fac=n1*np.cos(t1)/(n0*np.cos(t0))
    out=[th,'s R+T',rs**2+fac*ts**2,'p R+T',rp**2+fac*tp**2]
    for pol,rf,tf_ in [('s',rs,ts),('p',rp,tp)]:
        r,t=tf.multilayer_stack_rt([(n1,0.0)],0.5,pol,aoi=th)
        out+= [pol,'stack r',complex(r).real,'fres',rf,'stack t',complex(t).real,'fres',tf_, 'stack R+T',abs(r)**2+fac*abs(t)**2]
    print(*out)
print('brewster rp', tf.fresnel_rp(n0,n1,np.radians(tf.brewsters_angle(n0,n1)),tf.snell_aor(n0,n1,tf.brewsters_angle(n0,n1)).real))
st=[(1.38,0.1),(2.1,0.07),(1.52,10)]
for pol in 'sp':
    r,t=tf.multilayer_stack_rt(st,0.55,pol,aoi=30); t_ex=tf.snell_aor(1,1.52,30).real
    print(pol,'3layer R+T',abs(r)**2+1.52*np.cos(t_ex)/np.cos(np.radians(30))*abs(t)**2)
    st2=[st[0],(1.7,0.0),st[1],st[2]]; r2,t2=tf.multilayer_stack_rt(st2,0.55,pol,aoi=30); print('  zero-thick',abs(r2-r),abs(t2-t))
    tl=tf.snell_aor(1,1.7,30).real; dh=0.55/(2*1.7*np.cos(tl)); st3=[st[0],(1.7,dh),st[1],st[2]]; r3,t3=tf.multilayer_stack_rt(st3,0.55,pol,aoi=30); print('  halfwave',abs(abs(r3)-abs(r)),abs(abs(t3)-abs(t)))
