import numpy as np, sys, time
from prysm import propagation as P, fttools
rng=np.random.default_rng(3)
cn=lambda s:rng.standard_normal(s)+1j*rng.standard_normal(s)
wvl=0.5; efl=100.; dx=0.1
def tfb_fixed(a,dx,efl,wvl,fpm,fpm_dx,shift=(0,0),method='mdft'):
    f=P.focus_fixed_sampling(a,dx,efl,wvl,fpm_dx,fpm.shape,shift=shift,method=method)
    g=f*fpm
    shift_back=(shift[0]/fpm_dx*dx, shift[1]/fpm_dx*dx)
    return P.unfocus_fixed_sampling(g,fpm_dx,efl,wvl,dx,a.shape,shift=shift_back,method=method)
for n in [8,9]:
    a=cn((n,n)); D=n*dx
    for q in [1,2]:
        fdx=wvl*efl/D/q; ns=n*q
        for meth in ['mdft']:
            for sh in [(fdx*1.0,0.0)]:
                o=tfb_fixed(a,dx,efl,wvl,np.ones((ns,ns)),fdx,shift=sh,method=meth)
                print(n,q,meth,'err',abs(o-a).max())
# rebind feasibility
import prysm, importlib, pkgutil
def rebind(orig,new):
    k=0
    for name,mod in list(sys.modules.items()):
        if name.startswith('prysm') and mod is not None:
            for attr,val in list(vars(mod).items()):
                if val is orig: setattr(mod,attr,new); k+=1
    return k
calls=[]
orig=fttools.pad2d
def wrapped(*a,**k):
    calls.append(1); return orig(*a,**k)
print('rebound',rebind(orig,wrapped))
P.focus(np.ones((4,4)),2); P.Wavefront(np.ones((4,4)),1,1).pad2d(2); print('calls',len(calls))
# sys.monitoring cost
mon=sys.monitoring; TID=3; mon.use_tool_id(TID,'vp')
lines=set()
def on_line(code,line):
    if '/repo/prysm/' in code.co_filename: lines.add((code.co_filename,line)); return None
    return mon.DISABLE
def on_start(code,off):
    if '/repo/prysm/' not in code.co_filename: return mon.DISABLE
mon.register_callback(TID,mon.events.LINE,on_line)
a=cn((16,16))
def work():
    for i in range(300): fttools.czt.czt2(a,2,20,(i%5,0)); fttools.mdft.dft2(a,2,20)
t=time.time(); work(); t0=time.time()-t
mon.set_events(TID,mon.events.LINE)
t=time.time(); work(); t1=time.time()-t
mon.set_events(TID,0)
print('time plain',t0,'monitored',t1,'lines',len(lines))
