import numpy as np, warnings
from scipy import special as sp
from prysm import polynomials as p
from prysm.polynomials import qpoly
x=np.linspace(-1,1,41)
def rel(a,b): return np.abs(a-b).max()/max(1,np.abs(b).max())
worst={}
for n in range(0,40):
    for (al,be) in [(0,0),(-.5,-.5),(.5,.5),(-.5,.5),(.5,-.5),(0,4),(2.5,-0.7),(-0.9,-0.1),(0.3,-0.3),(-0.3,-0.7)]:
        worst[('jac',al,be)]=max(worst.get(('jac',al,be),0), rel(p.jacobi(n,al,be,x), sp.eval_jacobi(n,al,be,x)))
    worst['leg']=max(worst.get('leg',0),rel(p.legendre(n,x),sp.eval_legendre(n,x)))
    th=np.arccos(x)
    worst['c1']=max(worst.get('c1',0),rel(p.cheby1(n,x),np.cos(n*th)))
    with np.errstate(all='ignore'):
        xi=x[1:-1]; thi=np.arccos(xi)
        worst['c2']=max(worst.get('c2',0),rel(p.cheby2(n,xi),np.sin((n+1)*thi)/np.sin(thi)))
        worst['c3']=max(worst.get('c3',0),rel(p.cheby3(n,xi),np.cos((n+.5)*thi)/np.cos(thi/2)))
        worst['c4']=max(worst.get('c4',0),rel(p.cheby4(n,xi),np.sin((n+.5)*thi)/np.sin(thi/2)))
    xh=np.linspace(-3,3,31)
    worst['He']=max(worst.get('He',0),rel(p.hermite_He(n,xh),sp.eval_hermitenorm(n,xh)))
    worst['H']=max(worst.get('H',0),rel(p.hermite_H(n,xh),sp.eval_hermite(n,xh)))
    xl=np.linspace(0,10,31)
    for al in [0,0.5,2,-0.5]:
        worst[('lag',al)]=max(worst.get(('lag',al),0),rel(p.laguerre(n,al,xl),sp.eval_genlaguerre(n,al,xl)))
for k,v in worst.items(): print(k,v)
