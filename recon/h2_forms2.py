import sys, warnings
sys.path.insert(0, sys.argv[1] if len(sys.argv) > 1 else "/repo")
warnings.simplefilter('ignore')
import numpy as np
import prysm.polynomials as P
from prysm.polynomials import qpoly as Qp
from prysm.x.raytracing import surfaces as S

def cmp(a, b, tol=1e-12):
    try:
        if isinstance(a, (tuple, list)):
            r = [cmp(x, y, tol) for x, y in zip(a, b)]
            s = sorted(set(r)); return 'ok' if s == ['ok'] else ','.join(s)
        a = np.asarray(a); b = np.asarray(b)
        if a.shape != b.shape: return f'shape{a.shape}!={b.shape}'
        sc = max(1.0, float(np.max(np.abs(b))) if b.size else 1.0)
        e = np.max(np.abs(a - b)) if a.size else 0
        return 'ok' if e <= tol * sc else 'VAL %.2g' % (e / sc)
    except Exception as e:
        return 'CMPEXC ' + type(e).__name__

def T(label, f, g):
    try:
        got = f()
    except Exception as e:
        print(f'{label:70s} EXC {type(e).__name__}: {str(e)[:60]}'); return
    print(f'{label:70s} {cmp(got, g())}')

ri = np.array([0, 1, 1, 0]); rf = ri.astype(float); t = np.array([0.5, 1.75, 3.0, 5.5])
ti = np.array([0, 1, 2, 3]); tf = ti.astype(float)
for nm in ((3, 1), (3, -1), (4, 0), (2, 2), (5, 3), (1, 1), (0, 0)):
    for lab, r_, t_, rr, tt in (('r-int64', ri, t, rf, t), ('r-int32', ri.astype(np.int32), t, rf, t), ('r,t-int', ri, ti, rf, tf), ('r-bool', ri.astype(bool), t, rf, t), ('r-pyint', 1, 0.5, 1.0, 0.5), ('r-pyint0', 0, 0.5, 0.0, 0.5),
                                ('t-int', rf * 0.5 + 0.25, ti, rf * 0.5 + 0.25, tf)):
        T(f'zernike_nm{nm} {lab}', lambda: P.zernike_nm(*nm, r_, t_), lambda: P.zernike_nm(*nm, rr, tt))
        T(f'zernike_nm{nm} norm=False {lab}', lambda: P.zernike_nm(*nm, r_, t_, norm=False), lambda: P.zernike_nm(*nm, rr, tt, norm=False))
        T(f'zernike_nm_der{nm} {lab}', lambda: P.zernike_nm_der(*nm, r_, t_), lambda: P.zernike_nm_der(*nm, rr, tt))
        T(f'Q2d{nm} {lab}', lambda: P.Q2d(*nm, r_, t_), lambda: P.Q2d(*nm, rr, tt))
        if not isinstance(r_, int):
            T(f'zernike_nm_seq[{nm}] {lab}', lambda: P.zernike_nm_seq([nm, (2, 0)], r_, t_), lambda: P.zernike_nm_seq([nm, (2, 0)], rr, tt))
            T(f'zernike_nm_der_seq[{nm}] {lab}', lambda: P.zernike_nm_der_seq([nm, (2, 0)], r_, t_), lambda: P.zernike_nm_der_seq([nm, (2, 0)], rr, tt))
            T(f'Q2d_seq[{nm}] {lab}', lambda: P.Q2d_seq([nm, (2, 0)], r_, t_), lambda: P.Q2d_seq([nm, (2, 0)], rr, tt))
xi = np.array([-1, 0, 1, 2]); yi = np.array([2, 1, 0, -1])
for lab, x_, y_ in (('int64', xi, yi), ('int32', xi.astype(np.int32), yi.astype(np.int32)), ('pyint', 2, -1), ('bool', xi.astype(bool), yi.astype(bool)), ('complex', xi + 0.5j, yi - 0.25j)):
    xx = np.asarray(x_).astype(complex if lab == 'complex' else float); yy = np.asarray(y_).astype(complex if lab == 'complex' else float)
    for mn in ((2, 3), (0, 1), (0, 0), (3, 0)):
        T(f'xy{mn} {lab}', lambda: P.xy(*mn, x_, y_, cartesian_grid=False), lambda: xx ** mn[0] * yy ** mn[1])
    if lab != 'pyint':
        T(f'xy_seq {lab}', lambda: P.xy_seq([(2, 3), (0, 1), (0, 0), (3, 0)], x_, y_, cartesian_grid=False), lambda: [xx ** m * yy ** n for m, n in [(2, 3), (0, 1), (0, 0), (3, 0)]])
    T(f'hopkins {lab}', lambda: P.hopkins(2, 3, 1, x_, t if lab != 'pyint' else 0.5, y_), lambda: np.cos(2 * (t if lab != 'pyint' else 0.5)) * xx ** 3 * yy)
# meshgrid int
X, Y = np.meshgrid(np.arange(-2, 3), np.arange(-1, 3))
T('xy(2,3) int meshgrid cartesian', lambda: P.xy(2, 3, X, Y), lambda: X.astype(float) ** 2 * Y.astype(float) ** 3)
T('xy_seq int meshgrid cartesian', lambda: P.xy_seq([(2, 3), (0, 1)], X, Y), lambda: P.xy_seq([(2, 3), (0, 1)], X.astype(float), Y.astype(float)))

print('--- C09/C10 routines with int coordinates')
c = [0.3, -1.2, 0.7, 0.4, -0.6]
ui = np.array([0, 1, 1, 0]); uf = ui.astype(float)
T('compute_z_zprime_Qbfs int u', lambda: Qp.compute_z_zprime_Qbfs(c, ui, ui * ui), lambda: Qp.compute_z_zprime_Qbfs(c, uf, uf * uf))
T('compute_z_zprime_Qcon int u', lambda: Qp.compute_z_zprime_Qcon(c, ui, ui * ui), lambda: Qp.compute_z_zprime_Qcon(c, uf, uf * uf))
T('compute_z_zprime_Q2d int u', lambda: Qp.compute_z_zprime_Q2d(c, [c[:3], c], [c, c[:2]], ui, t), lambda: Qp.compute_z_zprime_Q2d(c, [c[:3], c], [c, c[:2]], uf, t))
T('clenshaw_qbfs int usq', lambda: Qp.clenshaw_qbfs(c, ui), lambda: Qp.clenshaw_qbfs(c, uf))
T('clenshaw_qbfs_der int usq', lambda: Qp.clenshaw_qbfs_der(c, ui, j=2), lambda: Qp.clenshaw_qbfs_der(c, uf, j=2))
T('clenshaw_q2d int usq', lambda: Qp.clenshaw_q2d(c, 2, ui), lambda: Qp.clenshaw_q2d(c, 2, uf))
T('clenshaw_q2d_der int usq', lambda: Qp.clenshaw_q2d_der(c, 2, ui, j=1), lambda: Qp.clenshaw_q2d_der(c, 2, uf, j=1))
T('jacobi_sum_clenshaw int x', lambda: P.jacobi_sum_clenshaw(c, 0.25, -0.25, xi[:3]), lambda: P.jacobi_sum_clenshaw(c, 0.25, -0.25, xi[:3].astype(float)))
T('jacobi_sum_clenshaw_der int x', lambda: P.jacobi_sum_clenshaw_der(c, 0.25, -0.25, xi[:3], j=2), lambda: P.jacobi_sum_clenshaw_der(c, 0.25, -0.25, xi[:3].astype(float), j=2))
for xs, lab in ((0.5, 'pyfloat'), (1, 'pyint'), (np.float64(0.5), 'npfloat'), (np.float32(0.5), 'npf32'), (np.array(0.5), '0d'), ([0.25, 0.5], 'list')):
    xf = np.asarray(xs, dtype=float)
    T(f'jacobi_sum_clenshaw x={lab}', lambda: P.jacobi_sum_clenshaw(c, 0.25, -0.25, xs), lambda: P.jacobi_sum_clenshaw(c, 0.25, -0.25, xf))
    T(f'jacobi_sum_clenshaw_der x={lab}', lambda: P.jacobi_sum_clenshaw_der(c, 0.25, -0.25, xs, j=2), lambda: P.jacobi_sum_clenshaw_der(c, 0.25, -0.25, xf, j=2))
    T(f'clenshaw_qbfs usq={lab}', lambda: Qp.clenshaw_qbfs(c, xs), lambda: Qp.clenshaw_qbfs(c, xf))
    T(f'clenshaw_qbfs_der usq={lab}', lambda: Qp.clenshaw_qbfs_der(c, xs), lambda: Qp.clenshaw_qbfs_der(c, xf))
    T(f'clenshaw_q2d usq={lab}', lambda: Qp.clenshaw_q2d(c, 2, xs), lambda: Qp.clenshaw_q2d(c, 2, xf))
    T(f'compute_z_zprime_Qbfs u={lab}', lambda: Qp.compute_z_zprime_Qbfs(c, xs, np.asarray(xs) ** 2 if lab != 'list' else [v * v for v in xs]), lambda: Qp.compute_z_zprime_Qbfs(c, xf, xf * xf))
    T(f'compute_z_zprime_Qcon u={lab}', lambda: Qp.compute_z_zprime_Qcon(c, xs, np.asarray(xs) ** 2 if lab != 'list' else [v * v for v in xs]), lambda: Qp.compute_z_zprime_Qcon(c, xf, xf * xf))
    T(f'compute_z_zprime_Q2d u={lab}', lambda: Qp.compute_z_zprime_Q2d(c, [c[:3], c], [c, c[:2]], xs, 0.6 if lab != 'list' else [0.6, 0.6]), lambda: Qp.compute_z_zprime_Q2d(c, [c[:3], c], [c, c[:2]], xf, np.zeros(xf.shape) + 0.6))
for j in (np.int64(2), np.int32(2), np.uint32(2), np.array(2)):
    T(f'jacobi_sum_clenshaw_der j as {type(j).__name__}/{getattr(j,"dtype","")}', lambda: P.jacobi_sum_clenshaw_der(c, 0.25, -0.25, xf * 0 + 0.3, j=j), lambda: P.jacobi_sum_clenshaw_der(c, 0.25, -0.25, xf * 0 + 0.3, j=2))
    T(f'clenshaw_qbfs_der j as {type(j).__name__}', lambda: Qp.clenshaw_qbfs_der(c, uf * 0.3, j=j), lambda: Qp.clenshaw_qbfs_der(c, uf * 0.3, j=2))
    T(f'clenshaw_q2d_der j,m as {type(j).__name__}', lambda: Qp.clenshaw_q2d_der(c, j, uf * 0.3, j=j), lambda: Qp.clenshaw_q2d_der(c, 2, uf * 0.3, j=2))
    T(f'clenshaw_q2d m as {type(j).__name__}', lambda: Qp.clenshaw_q2d(c, j, uf * 0.3), lambda: Qp.clenshaw_q2d(c, 2, uf * 0.3))
rho_i = np.array([1, 2, 5]); rho_f = rho_i.astype(float)
T('sphere_sag_der int', lambda: S.sphere_sag_der(1 / 40, rho_i), lambda: S.sphere_sag_der(1 / 40, rho_f))
T('conic_sag_der int', lambda: S.conic_sag_der(1 / 40, -0.6, rho_i), lambda: S.conic_sag_der(1 / 40, -0.6, rho_f))
T('der_direction_cosine_spheroid int', lambda: S.der_direction_cosine_spheroid(1 / 40, -0.6, rho_i), lambda: S.der_direction_cosine_spheroid(1 / 40, -0.6, rho_f))
T('off_axis_conic_der int r', lambda: S.off_axis_conic_der(1 / 40, -0.6, rho_i, t[:3], 15.0, 0), lambda: S.off_axis_conic_der(1 / 40, -0.6, rho_f, t[:3], 15.0, 0))
T('off_axis_conic_der int dx', lambda: S.off_axis_conic_der(1 / 40, -0.6, rho_f, t[:3], 15, 0), lambda: S.off_axis_conic_der(1 / 40, -0.6, rho_f, t[:3], 15.0, 0))
T('off_axis_conic_sigma_der int r', lambda: S.off_axis_conic_sigma_der(1 / 40, -0.6, rho_i, t[:3], 15.0, 0), lambda: S.off_axis_conic_sigma_der(1 / 40, -0.6, rho_f, t[:3], 15.0, 0))

print('--- lstsq / sum_of_2d_modes dtype kinds')
rng = np.random.default_rng(0)
M = rng.normal(size=(3, 4, 5)); w = np.array([1.0, -2.0, 3.0]); d = np.tensordot(w, M, axes=(0, 0))
Mi = rng.integers(-3, 4, size=(3, 4, 5)); di = np.tensordot(np.array([1, -2, 3]), Mi, axes=(0, 0))
T('sum_of_2d_modes int modes int weights', lambda: P.sum_of_2d_modes(Mi, [1, -2, 3]), lambda: di)
T('sum_of_2d_modes int modes float weights', lambda: P.sum_of_2d_modes(Mi, [1.5, -2, 3]), lambda: np.tensordot(np.array([1.5, -2, 3]), Mi.astype(float), axes=(0, 0)))
T('sum_of_2d_modes float modes int weights', lambda: P.sum_of_2d_modes(M, np.array([1, -2, 3])), lambda: d)
T('sum_of_2d_modes float modes bool weights', lambda: P.sum_of_2d_modes(M, np.array([True, False, True])), lambda: M[0] + M[2])
T('sum_of_2d_modes float modes uint8 weights', lambda: P.sum_of_2d_modes(M, np.array([1, 2, 3], dtype=np.uint8)), lambda: M[0] + 2 * M[1] + 3 * M[2])
T('sum_of_2d_modes complex modes', lambda: P.sum_of_2d_modes(M + 1j * M[::-1], w), lambda: np.tensordot(w, M + 1j * M[::-1], axes=(0, 0)))
T('sum_of_2d_modes float modes complex weights', lambda: P.sum_of_2d_modes(M, w + 1j), lambda: np.tensordot(w + 1j, M, axes=(0, 0)))
T('sum_of_2d_modes weights generator', lambda: P.sum_of_2d_modes(M, (v for v in w)), lambda: d)
T('sum_of_2d_modes weights range', lambda: P.sum_of_2d_modes(M, range(1, 4)), lambda: M[0] + 2 * M[1] + 3 * M[2])
T('sum_of_2d_modes modes tuple', lambda: P.sum_of_2d_modes(tuple(M), w), lambda: d)
T('sum_of_2d_modes modes generator', lambda: P.sum_of_2d_modes((m for m in M), w), lambda: d)
T('lstsq int data', lambda: P.lstsq(Mi.astype(float), di), lambda: np.array([1., -2, 3]))
T('lstsq int modes float data', lambda: P.lstsq(Mi, di.astype(float)), lambda: np.array([1., -2, 3]))
T('lstsq int modes int data', lambda: P.lstsq(Mi, di), lambda: np.array([1., -2, 3]))
T('lstsq f32 modes f64 data', lambda: P.lstsq(M.astype(np.float32), d), lambda: w, )
T('lstsq data list', lambda: P.lstsq(M, d.tolist()), lambda: w)
T('lstsq modes tuple', lambda: P.lstsq(tuple(M), d), lambda: w)
T('lstsq complex data', lambda: P.lstsq(M, d * (1 + 0.5j)), lambda: w * (1 + 0.5j))
T('lstsq masked-array data', lambda: P.lstsq(M, np.ma.masked_invalid(d)), lambda: w)
T('backprop', lambda: P.sum_of_2d_modes_backprop(M, d), lambda: np.tensordot(M, d))
T('backprop list', lambda: P.sum_of_2d_modes_backprop(list(M), d), lambda: np.tensordot(M, d))
T('backprop int', lambda: P.sum_of_2d_modes_backprop(Mi, di), lambda: np.tensordot(Mi, di))
print('--- Q2d_nm_c_to_a_b forms')
nms = [(0, 0), (1, 0), (0, 1), (1, 1), (0, -1), (1, -1), (0, 2), (0, -2), (1, -2)]; cf = [float(v) for v in rng.normal(size=len(nms))]
ref = Qp.Q2d_nm_c_to_a_b(nms, cf)
def flat(r): return [list(map(float, r[0])), [list(map(float, v)) for v in r[1]], [list(map(float, v)) for v in r[2]]]
for lab, mk in (('ndarray', lambda: np.array(nms)), ('tuple', lambda: tuple(nms)), ('generator', lambda: (e for e in nms)), ('list-of-lists', lambda: [list(e) for e in nms]), ('int32 arr', lambda: np.array(nms, dtype=np.int32)), ('np ints', lambda: [(np.int64(n), np.int64(m)) for n, m in nms])):
    for clab, cm in (('list', lambda: cf), ('ndarray', lambda: np.array(cf)), ('tuple', lambda: tuple(cf)), ('generator', lambda: (v for v in cf)), ('f32', lambda: np.array(cf, dtype=np.float32))):
        try:
            got = flat(Qp.Q2d_nm_c_to_a_b(mk(), cm()))
            ok = got == flat(ref) if clab != 'f32' else 'f32?'
            print(f'Q2d_nm_c_to_a_b nms={lab} coefs={clab}: {ok}')
        except Exception as e:
            print(f'Q2d_nm_c_to_a_b nms={lab} coefs={clab}: EXC {type(e).__name__} {str(e)[:50]}')
