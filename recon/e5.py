import numpy as np, collections, warnings
from prysm.fttools import mdft, czt, pad2d, crop_center
from prysm import propagation as P
from prysm.propagation import Wavefront
from prysm.coordinates import make_xy_grid
rng=np.random.default_rng(2)
E=lambda a:(abs(a)**2).sum()
# C02 energy/unitarity
for shp in [(4,4),(5,5),(4,7),(6,3),(1,5)]:
    a=rng.standard_normal(shp)+1j*rng.standard_normal(shp)
    for Q in [1,2,3]:
        f=P.focus(a,Q); print('focus',shp,Q,E(f)/E(a), end=' | ')
        back=P.unfocus(f,1); 
        c=crop_center(back,shp) if Q!=1 else back
        print('rt err', abs(c-a).max())
# mdft band-complete round trip: Q real, out = ceil? need N*Q integer = out
for (n,Q) in [(4,1.5),(5,1.2),(6,2.5),(8,1.25)]:
    out=int(round(n*Q)); a=rng.standard_normal((n,n))+1j*rng.standard_normal((n,n))
    for name,fw,bw in [('mdft',mdft.dft2,mdft.idft2),('czt',czt.czt2,czt.iczt2)]:
        F=fw(a,Q,out); b=bw(F,n/out* Q*1.0 if False else Q, n)  # inverse: input out samples, Q' such that out*Q' = n*Q
        # inverse kernel exp(+2pi i y v/(Na*Q')) with Na=out must equal n*Q -> Q' = n*Q/out = 1 when out=n*Q
        b2=bw(F,n*Q/out,n)
        print(name,n,Q,out,'E ratio',E(F)/E(a),'rt(Q)',abs(b-a).max(),'rt(Qinv)',abs(b2-a).max())
# angular spectrum
a=rng.standard_normal((8,6))+1j*rng.standard_normal((8,6))
for z in [0,1.,-2.5,100.]:
    o=P.angular_spectrum(a,0.6328,0.01,z,Q=1); print('AS z',z,E(o)/E(a), abs(o-a).max() if z==0 else '')
o1=P.angular_spectrum(P.angular_spectrum(a,0.55,0.01,3.,Q=1),0.55,0.01,-3.,Q=1); print('undo',abs(o1-a).max())
o2=P.angular_spectrum(P.angular_spectrum(a,0.55,0.01,3.,Q=1),0.55,0.01,4.,Q=1); o3=P.angular_spectrum(a,0.55,0.01,7.,Q=1); print('compose',abs(o2-o3).max())
w=Wavefront(a,0.55,0.01); print('ws z=0', abs(w.free_space(0,Q=1).data-a).max(), 'Q2 shape', w.free_space(1.,Q=2).data.shape)
