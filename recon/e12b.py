import numpy as np
from prysm import polynomials as p
N=120; k=np.arange(1,N+1); uc=np.cos((2*k-1)*np.pi/(2*N)); U=uc[uc>0]  # Gauss-Chebyshev nodes on (0,1); weight pi/N each for full; half-range: int_0^1 f/sqrt(1-u^2) du = (pi/N) sum_{u>0} f (f even)
nt=64; tt=np.arange(nt)*2*np.pi/nt
UU,TT=np.meshgrid(U,tt)
def grad(n,m):
    h=1e-6; f=lambda u,t:p.Q2d(n,m,u,t)
    du=(f(UU+h,TT)-f(UU-h,TT))/(2*h); dt=(f(UU,TT+h)-f(UU,TT-h))/(2*h)
    return du, dt/UU
nms=[(0,1),(1,1),(2,1),(3,1),(4,1),(5,1),(0,2),(1,2),(2,2),(3,2),(0,3),(1,3),(0,-2),(1,-1),(2,-3),(0,0),(1,0),(2,0),(0,5),(3,4)]
Gs=[grad(n,m) for n,m in nms]
W=np.full(UU.shape,(2*np.pi/nt)*(np.pi/N))/np.pi**2
G=np.array([[ ((a[0]*b[0]+a[1]*b[1])*W).sum() for b in Gs] for a in Gs])
np.set_printoptions(linewidth=250,precision=5,suppress=True)
print(np.diag(G)); off=G-np.diag(np.diag(G)); print('offdiag max',abs(off).max())
i,j=np.unravel_index(abs(off).argmax(),off.shape); print(nms[i],nms[j])
