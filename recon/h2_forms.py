"""Probe: which coordinate forms do the single / seq / der / der_seq routines accept consistently on the current tree?"""
import sys, warnings
sys.path.insert(0, '/repo')
import numpy as np
warnings.simplefilter('ignore')
import prysm.polynomials as P
from prysm.polynomials import qpoly

FAMS = {
    'jacobi': (0.25, -0.25), 'legendre': (), 'cheby1': (), 'cheby2': (), 'cheby3': (), 'cheby4': (),
    'hermite_He': (), 'hermite_H': (), 'laguerre': (0.5,), 'dickson1': (0.75,), 'dickson2': (0.75,), 'Qbfs': (), 'Qcon': (),
}
ints = np.array([-1, 0, 1])
FORMS = {
    'pyint': lambda: [(-1, -1.0), (0, 0.0), (1, 1.0)],
    'int64': lambda: [(ints.astype(np.int64), ints.astype(float))],
    'int32': lambda: [(ints.astype(np.int32), ints.astype(float))],
    'uint8': lambda: [(np.array([0, 1], dtype=np.uint8), np.array([0., 1.]))],
    'bool': lambda: [(np.array([False, True]), np.array([0., 1.]))],
    'c128': lambda: [(np.array([0.25 + 0.5j, -0.5 + 0.125j, 0.75 + 0j]), None)],
    'c64': lambda: [(np.array([0.25 + 0.5j, -0.5 + 0.125j, 0.75 + 0j], dtype=np.complex64), None)],
    'c128-real': lambda: [(np.array([0.25 + 0j, -0.5 + 0j, 0.75 + 0j]), np.array([0.25, -0.5, 0.75]))],
    'pyfloat': lambda: [(0.25, np.float64(0.25))],
    'pycomplex': lambda: [(0.25 + 0.5j, None)],
    'int0d': lambda: [(np.array(1), np.array(1.0))],
}
ORD = [0, 1, 2, 3, 5, 8]


def cmp(a, b, tol=1e-12):
    a = np.asarray(a); b = np.asarray(b)
    if a.shape != b.shape:
        return 'shape'
    sc = max(1.0, float(np.max(np.abs(b))) if b.size else 1.0)
    return 'ok' if np.max(np.abs(a - b)) <= tol * sc else 'VAL %.2g' % (np.max(np.abs(a - b)) / sc)


def numpoly(f, x):
    """polynomial extension to complex by fitting monomial coefficients at real points (degree<=10) - reference for complex x"""
    xs = np.cos(np.pi * (np.arange(16) + 0.5) / 16)
    ys = f(xs)
    co = np.polynomial.polynomial.polyfit(xs, ys, 12)
    return np.polynomial.polynomial.polyval(x, co)


for fam, par in FAMS.items():
    for kind in ('', '_der'):
        single = getattr(P, fam + kind, None)
        seq = getattr(P, fam + kind + '_seq', None)
        if single is None:
            continue
        for form, mk in FORMS.items():
            res_s, res_q = [], []
            for x, xf in mk():
                for n in ORD:
                    try:
                        got = single(n, *par, x)
                        if xf is None:
                            ref = numpoly(lambda z: single(n, *par, z), np.asarray(x))
                            res_s.append(cmp(got, ref, 1e-9))
                        else:
                            res_s.append(cmp(got, single(n, *par, xf)))
                    except Exception as e:
                        res_s.append('EXC ' + type(e).__name__)
                if seq is not None:
                    try:
                        got = seq(ORD, *par, x)
                        ref = np.array([single(n, *par, x) for n in ORD])
                        res_q.append(cmp(got, ref))
                    except Exception as e:
                        res_q.append('EXC ' + type(e).__name__)
            def summ(r):
                s = sorted(set(r))
                return 'ok' if s == ['ok'] else ','.join(s)
            print(f'{fam+kind:16s} {form:10s} single[{summ(res_s)}]  seq-vs-single[{summ(res_q)}]')
