import numpy as np, warnings, itertools
from prysm import polynomials as p
from prysm.polynomials import laguerre_der, laguerre_der_seq, qpoly
warnings.simplefilter('ignore')
fam1 = {  # name: (single, seq, extra args)
 'jacobi':(lambda n,x:p.jacobi(n,.3,1.2,x), lambda ns,x:p.jacobi_seq(ns,.3,1.2,x)),
 'jacobi_der':(lambda n,x:p.jacobi_der(n,.3,1.2,x), lambda ns,x:p.jacobi_der_seq(ns,.3,1.2,x)),
 'legendre':(p.legendre,p.legendre_seq),'legendre_der':(p.legendre_der,p.legendre_der_seq),
 'cheby1':(p.cheby1,p.cheby1_seq),'cheby1_der':(p.cheby1_der,p.cheby1_der_seq),
 'cheby2':(p.cheby2,p.cheby2_seq),'cheby2_der':(p.cheby2_der,p.cheby2_der_seq),
 'cheby3':(p.cheby3,p.cheby3_seq),'cheby3_der':(p.cheby3_der,p.cheby3_der_seq),
 'cheby4':(p.cheby4,p.cheby4_seq),'cheby4_der':(p.cheby4_der,p.cheby4_der_seq),
 'He':(p.hermite_He,p.hermite_He_seq),'He_der':(p.hermite_He_der,p.hermite_He_der_seq),
 'H':(p.hermite_H,p.hermite_H_seq),'H_der':(p.hermite_H_der,p.hermite_H_der_seq),
 'lag':(lambda n,x:p.laguerre(n,.5,x), lambda ns,x:p.laguerre_seq(ns,.5,x)),
 'lag_der':(lambda n,x:laguerre_der(n,.5,x), lambda ns,x:laguerre_der_seq(ns,.5,x)),
 'dick1':(lambda n,x:p.dickson1(n,.7,x), lambda ns,x:p.dickson1_seq(ns,.7,x)),
 'dick2':(lambda n,x:p.dickson2(n,.7,x), lambda ns,x:p.dickson2_seq(ns,.7,x)),
 'Qbfs':(p.Qbfs,p.Qbfs_seq),'Qcon':(p.Qcon,p.Qcon_seq),
}
rng=np.random.default_rng(0)
xs={'0d':np.array(0.37),'1d':rng.random(7),'2d':rng.random((4,5)),'2d_k':None,'3d':rng.random((2,3,4))}
nss=[[0,1,2,3,4],[1,2,3],[0],[1],[2],[3],[5],[0,2,5],[2,4,7],[3,4],[0,4],[1,3,6,7]]
for name,(f,fs) in fam1.items():
    fails={}
    for ns in nss:
        for xn,x in xs.items():
            if xn=='2d_k': x=rng.random((len(ns),5))
            try:
                ref=np.array([f(n,x) for n in ns])
                got=np.asarray(fs(ns,x))
                ok = got.shape==ref.shape and np.allclose(got,ref,rtol=1e-10,atol=1e-12)
                if not ok: fails.setdefault(xn,[]).append((ns,'shape' if got.shape!=ref.shape else 'val'))
            except Exception as e:
                fails.setdefault(xn,[]).append((ns,type(e).__name__))
    print(name, {k:(len(v),v[:3]) for k,v in fails.items()})
