import numpy as np, warnings
from prysm import polynomials as p
from prysm.polynomials import qpoly
from numpy.polynomial import chebyshev as C
warnings.simplefilter('ignore')
rng=np.random.default_rng(0)
def sdiff(f,deg,xq,lo=-1,hi=1,k=1):
    xs=C.chebpts1(deg+1); xm=(xs+1)/2*(hi-lo)+lo
    co=C.chebfit(xs,f(xm),deg); return C.chebval((xq-lo)/(hi-lo)*2-1,C.chebder(co,k))*(2/(hi-lo))**k
xq=np.linspace(-.9,.9,9)
# jacobi clenshaw sum and der
for L in [1,2,3,6]:
    s=rng.standard_normal(L)
    explicit=lambda x:sum(c*p.jacobi(n,.3,1.2,x) for n,c in enumerate(s))
    try:
        got=p.jacobi_sum_clenshaw(s,.3,1.2,xq); print('clenshaw L',L,abs(got-explicit(xq)).max())
    except Exception as e: print('clenshaw L',L,'EXC',repr(e))
    for j in [1,2,3]:
        try:
            al=p.jacobi_sum_clenshaw_der(s,.3,1.2,xq,j=j)
            ref=sdiff(explicit,L+2,xq,k=j); print('   der j',j,abs(al[j][0]-ref).max(), 'value row',abs(al[0][0]-explicit(xq)).max())
        except Exception as e: print('   der j',j,'EXC',repr(e)[:80])
# Qbfs sums
u=np.linspace(0.05,.95,9)
for L in [1,2,5]:
    cs=rng.standard_normal(L)
    explicit=lambda u:sum(c*p.Qbfs(n,u) for n,c in enumerate(cs))
    try: print('clenshaw_qbfs L',L,abs(qpoly.clenshaw_qbfs(cs,u*u)-explicit(u)).max())
    except Exception as e: print('clenshaw_qbfs L',L,'EXC',repr(e)[:80])
    try:
        z,zp=qpoly.compute_z_zprime_Qbfs(cs,u,u*u); print('   zzprime', abs(z-explicit(u)).max(), abs(zp-sdiff(explicit,2*L+6,u,0,1)).max())
    except Exception as e: print('   zzprime EXC',repr(e)[:80])
    explicitc=lambda u:sum(c*p.Qcon(n,u) for n,c in enumerate(cs))
    try:
        z,zp=qpoly.compute_z_zprime_Qcon(cs,u,u*u); print('   Qcon zzprime', abs(z-explicitc(u)).max(), abs(zp-sdiff(explicitc,2*L+6,u,0,1)).max())
    except Exception as e: print('   Qcon EXC',repr(e)[:80])
# zernike der
r=np.linspace(.1,.9,7); t=np.linspace(.2,5.9,7); h=1e-6
w=0
for n in range(0,9):
    for m in range(-n,n+1,2):
        dr,dt=p.zernike_nm_der(n,m,r,t)
        ndr=(p.zernike_nm(n,m,r+h,t)-p.zernike_nm(n,m,r-h,t))/(2*h); ndt=(p.zernike_nm(n,m,r,t+h)-p.zernike_nm(n,m,r,t-h))/(2*h)
        w=max(w,abs(dr-ndr).max(),abs(dt-ndt).max())
print('zernike der worst (fd 1e-6)',w)
# Q2d evaluator
def q2d_explicit(nms,cs,u,t): return sum(c*p.Q2d(n,m,u,t) for (n,m),c in zip(nms,cs))
U,T=np.meshgrid(np.linspace(.1,.9,6),np.linspace(.1,6,7))
cases={'dense':[(0,0),(1,0),(0,1),(1,1),(0,-1),(1,-1),(0,2),(2,2),(0,-2),(1,-2)],
       'sine_only_m2':[(0,0),(0,1),(0,-1),(1,-2)],
       'cos_only':[(0,1),(2,1),(1,3)],
       'sin_only':[(0,-1),(2,-2)],
       'm1_long':[(0,1),(1,1),(2,1),(3,1),(4,1),(0,-1),(3,-1)],
       'nom0':[(1,1),(1,-1)],
       'unequal':[(0,0),(3,2),(0,-2)]}
for name,nms in cases.items():
    cs=rng.standard_normal(len(nms))
    try:
        cm0,a,b=qpoly.Q2d_nm_c_to_a_b(nms,cs)
    except Exception as e:
        print(name,'packer EXC',repr(e)[:60]); continue
    try:
        z,dr,dt=qpoly.compute_z_zprime_Q2d(cm0,a,b,U,T)
        ref=q2d_explicit(nms,cs,U,T)
        ndr=(q2d_explicit(nms,cs,U+h,T)-q2d_explicit(nms,cs,U-h,T))/(2*h); ndt=(q2d_explicit(nms,cs,U,T+h)-q2d_explicit(nms,cs,U,T-h))/(2*h)
        print(name,'z err',abs(z-ref).max(),'dr',abs(dr-ndr).max(),'dt',abs(dt-ndt).max())
    except Exception as e: print(name,'eval EXC',repr(e)[:80])
# lstsq
modes=np.array([p.zernike_nm(n,m,*np.meshgrid(np.linspace(0,1,9),np.linspace(0,6,8))) for n,m in [(0,0),(1,1),(1,-1),(2,0),(2,2)]])
c=rng.standard_normal(5); data=p.sum_of_2d_modes(modes,c); data[rng.random(data.shape)<0.2]=np.nan
print('lstsq',abs(p.lstsq(modes,data)-c).max())
data2=data.copy(); data2[0,0]=np.inf; print('lstsq inf',abs(p.lstsq(modes,data2)-c).max())
