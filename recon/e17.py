import numpy as np, warnings
from prysm.interferogram import Interferogram, psd, bandlimited_rms, render_synthetic_surface
from prysm.coordinates import cart_to_polar
warnings.simplefilter('ignore')
rng=np.random.default_rng(0)
def mk(shp=(12,14),dx=0.5,nan='circ'):
    z=rng.standard_normal(shp)*10
    if nan=='circ':
        y,x=np.indices(shp); r=np.hypot(x-shp[1]//2,y-shp[0]//2); z[r>min(shp)/2-1]=np.nan
    return Interferogram(z.copy(),dx=dx)
def coherent(i):
    out=[]
    shp=i.data.shape
    for nm in ['x','y','r','t']:
        a=getattr(i,nm)
        if a.shape!=shp: out.append(f'{nm} shape {a.shape}!={shp}')
    x,y,r,t=i.x,i.y,i.r,i.t
    if x.shape==shp and shp[1]>1 and not np.allclose(np.diff(x,axis=1),i.dx): out.append('x spacing != dx')
    if y.shape==shp and shp[0]>1 and not np.allclose(np.diff(y,axis=0),i.dx): out.append('y spacing != dx')
    if r.shape==x.shape==y.shape:
        rr,tt=cart_to_polar(x,y)
        if not np.allclose(rr,r): out.append('r stale')
        if not np.allclose(tt,t): out.append('t stale')
    return out
for ops in [['r','latcal:2.0'],['r','strip_latcal'],['r','pad:3'],['x','pad:3'],['pad:3'],['r','crop'],['crop','r','pad:2'],['r','recenter'],['x','crop','recenter','r','latcal:0.1'],['r','crop','latcal:3']]:
    i=mk()
    for op in ops:
        if op in 'xyrt': getattr(i,op)
        elif op.startswith('latcal'): i.latcal(float(op.split(':')[1]))
        elif op.startswith('pad'): i.pad(samples=int(op.split(':')[1]))
        else: getattr(i,op)()
    print(ops, coherent(i))
# stats, removal idempotence
i=mk(); i.remove_piston(); print('mean after piston',np.nanmean(i.data))
i=mk(); i.remove_tiptilt(); d1=i.data.copy(); i.remove_tiptilt(); print('tilt idem',np.nanmax(abs(i.data-d1)))
i=mk(); i.remove_power(); d1=i.data.copy(); i.remove_power(); print('power idem',np.nanmax(abs(i.data-d1)))
i=mk(); v0=np.isfinite(i.data).sum(); i.crop(); s1=i.data.shape; v1=np.isfinite(i.data).sum(); i.crop(); print('crop',s1,i.data.shape,v0,v1)
i=mk(); print('stats',i.rms**2-(i.std**2+np.nanmean(i.data)**2), i.Sa<=i.std<=i.pv)
# filter w/ stale
i=mk(nan=None); i.r; 
try:
    i.latcal(2.0); i.filter(0.1); print('filter after latcal ok', np.isnan(i.data).sum())
except Exception as e: print('filter EXC',repr(e)[:80])
# PSD Parseval
for shp in [(16,16),(15,15),(12,18),(9,14)]:
    for win in ['hann','welch',None,'user']:
        z=rng.standard_normal(shp); dx=0.37
        w=win if win!='user' else rng.random(shp)+.5
        ux,uy,P=psd(z,dx,window=w)
        from prysm.interferogram import make_window
        W=make_window(z,dx,w)
        dfx=1/(shp[1]*dx); dfy=1/(shp[0]*dx)
        lhs=P.sum()*dfx*dfy; rhs=((z*W)**2).sum()/(W**2).sum()
        # frequency location test: sinusoid along x with k cycles
        k=3; yy,xx=np.indices(shp); s=np.cos(2*np.pi*k*(xx-shp[1]//2)/shp[1])
        ux2,uy2,P2=psd(s,dx,window=np.ones(shp)); iy,ix=np.unravel_index(P2.argmax(),P2.shape)
        print(shp,win,'parseval rel err',abs(lhs-rhs)/rhs, 'peak at fx',abs(ux2[iy,ix]),'fy',uy2[iy,ix],'expect',k/(shp[1]*dx))
try:
    i=mk(nan=None); print(i.bandlimited_rms(flow=0.1,fhigh=0.5))
except Exception as e: print('blrms EXC',repr(e)[:80])
for n in [16,17]:
    x,y,z=render_synthetic_surface(10.,n,rms=3.3,a=1,b=2,c=2.5); print('synth rms',n,np.sqrt(np.nanmean(z**2)))
m=np.ones((16,16)); m[:3]=0
x,y,z=render_synthetic_surface(10.,16,rms=3.3,mask=m,a=1,b=2,c=2.5); print('synth rms masked',np.sqrt(np.nanmean(z**2)), np.isnan(z).sum())
