import numpy as np, time
from prysm import polynomials as p
t0=time.time()
N=200000
def valid(n,m): return n>=abs(m) and (n-abs(m))%2==0
res={}
for name,f,inv,start in [('noll',p.noll_to_nm,None,1),('fringe',p.fringe_to_nm,p.nm_to_fringe,1),('ansi',p.ansi_j_to_nm,p.nm_to_ansi_j,0)]:
    seen={}; bad=[]; 
    for j in range(start,N):
        try: nm=f(j)
        except Exception as e: bad.append((j,repr(e))); continue
        nm=(int(nm[0]),int(nm[1]))
        if not valid(*nm): bad.append((j,nm,'invalid'))
        if nm in seen: bad.append((j,nm,'dup of',seen[nm]))
        seen[nm]=j
        if inv and inv(*nm)!=j: bad.append((j,nm,'inv',inv(*nm)))
    res[name]=(len(bad),bad[:5]); print(name,len(bad),bad[:5],time.time()-t0)
# noll ordering rules
prev=-1
badn=[]
for j in range(1,5000):
    n,m=p.noll_to_nm(j)
    if n<prev: badn.append((j,'n decreasing'))
    prev=n
    if m!=0 and ((j%2==0)!=(m>0)): badn.append((j,n,m,'parity'))
print('noll rules',badn[:5])
# surjectivity: all valid (n,m) up to n<=N0 appear in first (N0+1)(N0+2)/2 indices for noll/ansi
# xy
seen={}; bad=[]
t0=time.time()
for j in range(1,3000):
    mn=p.xy_j_to_mn(j)
    if mn in seen or min(mn)<0: bad.append((j,mn))
    seen[mn]=j
print('xy',len(bad),bad[:5],time.time()-t0)
# expected order: degree d=m+n nondecreasing
print([p.xy_j_to_mn(j) for j in range(1,12)])
