import numpy as np, collections
from prysm.fttools import mdft, czt
exec(open('e1.py').read().split("rng=np.random")[0])
rng=np.random.default_rng(0)
ok=collections.Counter(); tot=collections.Counter()
rows=[]
for m in range(1,8):
 for n in range(1,8):
  for M in range(1,9):
   for N in range(1,9):
    for Q in [1,2.5,(1.3,2.2)]:
     for shift in [(0,0),(1.5,-2)]:
        a = rng.standard_normal((m,n))+1j*rng.standard_normal((m,n))
        r = ref_dft(a,Q,(M,N),shift)
        try:
            c = czt.czt2(a,Q,(M,N),shift)
            good = np.abs(np.abs(c)-np.abs(r)).max()<1e-9
        except Exception as e:
            good=False
        key=('sq' if m==n else 'nonsq','outsq' if M==N else 'outnonsq','Qs' if not isinstance(Q,tuple) else 'Qt', 'par_y:%d->%d'%(m%2,M%2),'par_x:%d->%d'%(n%2,N%2), 'sh' if shift!=(0,0) else 'nosh')
        tot[key]+=1; ok[key]+=good
for k in sorted(tot):
    print(k, ok[k], tot[k])
