import time, numpy as np
from fractions import Fraction as F
from math import factorial
from prysm import polynomials as p
def gbinom(z,k):
    out=F(1)
    for i in range(k): out*= (z-i)
    return out/factorial(k)
def jacobi_exact(n,a,b,x):
    a=F(a); b=F(b); x=F(x); s=F(0)
    u=(x-1)/2; v=(x+1)/2
    for k in range(n+1):
        s+=gbinom(n+a,n-k)*gbinom(n+b,k)*u**k*v**(n-k)
    return s
t=time.time()
worst=0
for n in [0,1,2,5,10,40,80,150]:
    for (a,b) in [(F(-1,2),F(1,2)),(F(3,10),F(6,5)),(0,4)]:
        for x in [F(-1),F(-7,10),F(1,3),F(9,10),F(1)]:
            ex=float(jacobi_exact(n,a,b,x)); got=float(p.jacobi(n,float(a),float(b),np.float64(float(x))))
            worst=max(worst,abs(got-ex)/max(1,abs(ex)))
print('jacobi exact worst rel',worst,'time',time.time()-t)
# sup-norm scaling check at n=150
x=np.linspace(-1,1,201); print('n=150 sup',abs(p.jacobi(150,.3,1.2,x)).max())
