import numpy as np, warnings
from prysm.x.raytracing.surfaces import Surface, Q2d_and_der, surface_normal_from_cylindrical_derivatives
from prysm.x.raytracing import spencer_and_murty as sm
from prysm.coordinates import cart_to_polar
warnings.simplefilter('ignore')
cm0=[0.01,-0.004]; ams=[[0.002,0.001],[0.0005]]; bms=[[0.001,0.0],[0.0003]]
def FFp(x,y):
    x=x[:,None]; y=y[:,None]
    z,dr,dt=Q2d_and_der(cm0,ams,bms,x,y,normalization_radius=10.,c=1/80.,k=-0.8)
    r,t=cart_to_polar(x,y,vec_to_grid=False)
    ddx,ddy=surface_normal_from_cylindrical_derivatives(dr,dt,r,t)
    return z[:,0],ddx[:,0],ddy[:,0]
s=Surface('refl',P=[0,0,0],n=None,FFp=FFp)
P=np.array([[1.,2,-10],[3,-1,-10],[-4,4,-10],[0.,0,-10]]); S=np.tile([0,0,1.],(4,1))
Ph,Sh=sm.raytrace([s],P,S,0.55)
print(Ph[1],Sh[1],np.linalg.norm(Sh[1],axis=1))
z,n=s.sag_normal(Ph[1][:,0],Ph[1][:,1]); print('on surf',Ph[1][:,2]-z)
