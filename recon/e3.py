import numpy as np, collections
from prysm.fttools import mdft, czt, pad2d, crop_center
from prysm import propagation as P
from prysm.conf import config
exec(open('e1.py').read().split("rng=np.random")[0])
rng=np.random.default_rng(1)
# complex equality no-shift in square/scalarQ classes
for (m,M,Q) in [(4,4,1),(4,6,2),(5,4,1.5),(5,7,3),(6,6,2)]:
    a=rng.standard_normal((m,m))+1j*rng.standard_normal((m,m))
    r=ref_dft(a,Q,M); c=czt.czt2(a,Q,M); d=mdft.dft2(a,Q,M)
    ri=ref_dft(a,Q,M,fwd=False); ci=czt.iczt2(a,Q,M); di=mdft.idft2(a,Q,M)
    print(m,M,Q,'czt',abs(c-r).max(),'mdft',abs(d-r).max(),'iczt',abs(ci-ri).max(),'idft',abs(di-ri).max())
# real input
a=rng.standard_normal((5,5)); print('real in', abs(czt.czt2(a,2,5)-ref_dft(a,2,5)).max(), abs(czt.iczt2(a,2,5)-ref_dft(a,2,5,fwd=False)).max())
# FFT route vs ref: focus(Q) equals ref_dft(a,Q,out=ceil(n*Q))
for shp in [(4,4),(5,5),(4,6),(5,8),(7,3)]:
  for Q in [1,2,3]:
    a=rng.standard_normal(shp)+1j*rng.standard_normal(shp)
    f=P.focus(a,Q); out=f.shape
    # FFT on padded array: equivalent Q per axis = out/in
    Qe=(out[0]/shp[0], out[1]/shp[1])
    r=ref_dft(a,Qe,out)
    u=P.unfocus(a,Q); ru=ref_dft(a,Qe,out,fwd=False)
    print('focus',shp,Q,out,abs(f-r).max(), 'unfocus',abs(u-ru).max())
# precision/caching history
mdft.clear(); czt.clear()
a=rng.standard_normal((6,6))+1j*rng.standard_normal((6,6))
config.precision=32
d32=mdft.dft2(a.astype(np.complex64),2,6); print('after 32 first:', d32.dtype)
config.precision=64
d64=mdft.dft2(a,2,6); print('64 after 32 cached:', d64.dtype, abs(d64-ref_dft(a,2,6)).max())
mdft.clear()
d64b=mdft.dft2(a,2,6); print('64 fresh:', d64b.dtype, abs(d64b-ref_dft(a,2,6)).max())
config.precision=32
d32b=mdft.dft2(a.astype(np.complex64),2,6); print('32 after 64 cached:', d32b.dtype)
config.precision=64; mdft.clear()
# key type aliasing: shift int vs float, Q list vs tuple
print(abs(mdft.dft2(a,[2,2],6)-mdft.dft2(a,2,6)).max(), abs(mdft.dft2(a,2.0,(6,6),(0.0,0.0))-mdft.dft2(a,2,6)).max())
try:
    print(abs(mdft.dft2(a,np.float64(2),6)-mdft.dft2(a,2,6)).max())
except Exception as e: print('npfloat Q err',repr(e))
try:
    print(abs(mdft.dft2(a,np.array([2.,2.]),6)-mdft.dft2(a,2,6)).max())
except Exception as e: print('nparray Q err',repr(e))
try:
    print(abs(mdft.dft2(a,2,6,shift=np.array([0.,0.]))-mdft.dft2(a,2,6)).max())
except Exception as e: print('nparray shift err',repr(e))
try:
    print(abs(mdft.dft2(a,2,[6,6])-mdft.dft2(a,2,6)).max())
except Exception as e: print('list samples err',repr(e))
