import numpy as np, warnings, os, tempfile
from prysm import io as pio
from prysm.interferogram import Interferogram
warnings.simplefilter('ignore')
rng=np.random.default_rng(0)
d=tempfile.mkdtemp()
def zy(z,dx=0.5,wvl=0.6328):
    f=os.path.join(d,'a.dat'); pio.write_zygo_dat(f,z,dx,wavelength=wvl); return pio.read_zygo_dat(f), f
for shp in [(4,4),(3,5),(1,6),(5,1)]:
    z=rng.standard_normal(shp)*100; z[0,0]=np.nan
    r,f=zy(z); p=r['phase']
    step=0.6328e3/32768
    same=p.shape==z.shape and np.array_equal(np.isnan(p),np.isnan(z)) and np.nanmax(abs(p-z))<=step*1.01
    lr=p.shape==z.shape and np.array_equal(np.isnan(p),np.isnan(z[:,::-1])) and np.nanmax(abs(p-z[:,::-1]))<=step*1.01
    print('zygo',shp,p.shape,'same',same,'mirrored-lr',lr,'dx',r['meta']['lateral_resolution'],'wvl',r['meta']['wavelength'])
# truncation
z=rng.standard_normal((4,5))*100; r,f=zy(z); full=open(f,'rb').read(); print('len',len(full))
outc={}
for cut in range(800,len(full)):
    g=os.path.join(d,'t.dat'); open(g,'wb').write(full[:cut])
    with warnings.catch_warnings(record=True) as w:
        warnings.simplefilter('always')
        try:
            p=pio.read_zygo_dat(g)['phase']; 
            nn=np.isnan(p).sum(); kind=('full-nonan' if nn==0 else 'nan%d'%nn)+('+warn' if any('trunc' in str(x.message) for x in w) else '')
        except Exception as e: kind='EXC '+type(e).__name__
    outc.setdefault(kind,[]).append(cut)
for k,v in outc.items(): print(k,v[0],'..',v[-1],len(v))
# codev
def cv(z):
    f=os.path.join(d,'a.int'); pio.write_codev_gridint(z,f); return pio.read_codev_gridint(f)[0], f
for name,z in [('sq mixed',rng.standard_normal((6,6))*100),('nonsq mixed',rng.standard_normal((4,7))*100),('allpos big',rng.random((5,5))*5000+10),('allpos small',rng.random((5,5))*50+1),('allneg',-rng.random((5,5))*500-1),('const',np.full((4,4),7.)),('zeros',np.zeros((4,4))),('1xN',rng.standard_normal((1,7))*10),('nan',None)]:
    if z is None:
        z=rng.standard_normal((6,6))*100; z[1,2]=np.nan; z[5,0]=np.nan
    try:
        a,f=cv(z)
        hdr=open(f).read().split('\n')[1]
        ok=a.shape==z.shape and np.array_equal(np.isnan(a),np.isnan(z))
        err=np.nanmax(abs(a-z)) if a.shape==z.shape else None
        print('codev',name,a.shape,z.shape,'nanok',ok,'maxerr',err,'range',np.nanmin(z),np.nanmax(z),hdr)
    except Exception as e: print('codev',name,'EXC',repr(e)[:100])
# codev truncation
z=rng.standard_normal((6,6))*100; a,f=cv(z); full=open(f).read(); start=full.index('\n',full.index('GRD'))+1
outc={}
for cut in range(start,len(full)):
    g=os.path.join(d,'t.int'); open(g,'w').write(full[:cut])
    try:
        b=pio.read_codev_gridint(g)[0]; kind='full-equal' if np.array_equal(b,a) else ('full-DIFFERENT' if not np.isnan(b).any() else 'nan')
    except Exception as e: kind='EXC '+type(e).__name__
    outc.setdefault(kind,[]).append(cut)
for k,v in outc.items(): print(k,len(v),v[:5],v[-3:], 'of',len(full))
# Interferogram pair
z=rng.standard_normal((5,7))*100; z[0,1]=np.nan
i=Interferogram(z.copy(),dx=0.25,wavelength=0.55); f=os.path.join(d,'i.dat'); i.save_zygo_dat(f); j=Interferogram.from_zygo_dat(f)
print('ifg pair',j.data.shape,j.dx,j.wavelength,np.nanmax(abs(j.data-z)),np.nanmax(abs(j.data-z[:,::-1])))
