import numpy as np, warnings
from prysm import polynomials as p
from prysm.polynomials import qpoly, laguerre_der
from numpy.polynomial import chebyshev as C
warnings.simplefilter('ignore')
rng=np.random.default_rng(0)
# two-index seqs
for shp in [(),(6,),(4,5),(3,5)]:
    r=rng.random(shp); t=rng.random(shp)*6
    nms=[(2,0),(3,-1),(1,1),(4,4),(5,-3),(0,0),(6,2)][:3 if shp==(3,5) else 7]
    for nm,f,fs in [('zern',lambda n,m:p.zernike_nm(n,m,r,t),lambda:p.zernike_nm_seq(nms,r,t)),
                    ('zern_nonorm',lambda n,m:p.zernike_nm(n,m,r,t,norm=False),lambda:p.zernike_nm_seq(nms,r,t,norm=False)),
                    ('q2d',lambda n,m:p.Q2d(n,m,r,t),lambda:p.Q2d_seq(nms,r,t)),
                    ('zern_der',lambda n,m:np.array(p.zernike_nm_der(n,m,r,t)),lambda:p.zernike_nm_der_seq(nms,r,t))]:
        try:
            ref=np.array([f(n,m) for n,m in nms]); got=np.asarray(fs())
            print(nm,shp,got.shape==ref.shape, np.abs(got-ref).max() if got.shape==ref.shape else (got.shape,ref.shape))
        except Exception as e: print(nm,shp,'EXC',repr(e)[:100])
x,y=np.meshgrid(np.linspace(-1,1,5),np.linspace(-1,1,4))
mns=[(0,0),(1,0),(0,1),(2,1),(1,3),(0,4),(3,0)]
got=p.xy_seq(mns,x,y); 
for (m,n),g in zip(mns,got):
    ref=x**m*y**n; print('xy',(m,n),np.asarray(g).shape, abs(np.broadcast_to(g,ref.shape)-ref).max(), abs(p.xy(m,n,x,y)-ref).max())
# C09 derivatives via spectral diff
def sdiff(f,deg,xq,lo=-1,hi=1):
    xs=C.chebpts1(deg+1); xm=(xs+1)/2*(hi-lo)+lo
    co=C.chebfit(xs,f(xm),deg); return C.chebval((xq-lo)/(hi-lo)*2-1,C.chebder(co))*2/(hi-lo)
xq=np.linspace(-.9,.9,11)
for n in range(0,9):
    row=[n]
    for nm,f,fd,lo,hi in [('jac',lambda x:p.jacobi(n,.3,1.2,x),lambda x:p.jacobi_der(n,.3,1.2,x),-1,1),
                    ('c1',lambda x:p.cheby1(n,x),lambda x:p.cheby1_der(n,x),-1,1),('c2',lambda x:p.cheby2(n,x),lambda x:p.cheby2_der(n,x),-1,1),
                    ('c3',lambda x:p.cheby3(n,x),lambda x:p.cheby3_der(n,x),-1,1),('c4',lambda x:p.cheby4(n,x),lambda x:p.cheby4_der(n,x),-1,1),
                    ('leg',lambda x:p.legendre(n,x),lambda x:p.legendre_der(n,x),-1,1),
                    ('He',lambda x:p.hermite_He(n,x),lambda x:p.hermite_He_der(n,x),-3,3),('H',lambda x:p.hermite_H(n,x),lambda x:p.hermite_H_der(n,x),-3,3),
                    ('lag',lambda x:p.laguerre(n,.5,x),lambda x:laguerre_der(n,.5,x),0,8)]:
        xx=(xq+1)/2*(hi-lo)+lo
        ref=sdiff(f,n+2,xx,lo,hi); got=fd(xx)
        row.append('%s:%.0e'%(nm,np.abs(got-ref).max()/max(1,np.abs(ref).max())))
    print(*row)
