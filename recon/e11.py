import numpy as np, warnings, math
from prysm import polynomials as p
from prysm.polynomials import qpoly
from numpy.polynomial import chebyshev as C
# Zernike explicit
def Rnm(n,m,r):
    m=abs(m); out=np.zeros_like(r)
    for k in range((n-m)//2+1):
        out+=(-1)**k*math.factorial(n-k)/(math.factorial(k)*math.factorial((n+m)//2-k)*math.factorial((n-m)//2-k))*r**(n-2*k)
    return out
r=np.linspace(0,1,33); t=np.linspace(0,2*np.pi,33)
w=0
for n in range(0,25):
    for m in range(-n,n+1,2):
        z=p.zernike_nm(n,m,r,t,norm=False)
        ref=Rnm(n,m,r)*(np.cos(m*t) if m>=0 else np.sin(-m*t))
        w=max(w,abs(z-ref).max())
print('zernike explicit worst',w)
# Zernike orthonormality over unit disk via exact quadrature: Gauss-Legendre in r^2? integrand poly in r times trig -> use GL in r (deg) & uniform theta
nr=60; xg,wg=np.polynomial.legendre.leggauss(nr); rr=(xg+1)/2; wr=wg/2
nt=128; tt=np.arange(nt)*2*np.pi/nt
R,T=np.meshgrid(rr,tt); W=np.outer(np.ones(nt)*(2*np.pi/nt),wr*rr)/np.pi
nms=[(n,m) for n in range(0,13) for m in range(-n,n+1,2)]
Z=np.array([p.zernike_nm(n,m,R,T,norm=True) for n,m in nms])
G=np.einsum('iab,jab,ab->ij',Z,Z,W)
print('zernike gram err',abs(G-np.eye(len(nms))).max())
# Qbfs closed forms
x=np.linspace(0,1,21)
u=np.sqrt(x)
cf=[lambda x:1+0*x, lambda x:(13-16*x)/np.sqrt(19), lambda x:np.sqrt(2/95)*(29-4*x*(25-19*x)), lambda x:np.sqrt(2/2545)*(207-4*x*(315-x*(577-320*x))),
    lambda x:(7737-16*x*(4653-2*x*(7381-8*x*(1168-509*x))))/(3*np.sqrt(131831)),
    lambda x:(66657-32*x*(28338-x*(135325-8*x*(35884-x*(34661-12432*x)))))/(3*np.sqrt(6632213))]
for n,f in enumerate(cf):
    print('Qbfs',n,abs(p.Qbfs(n,u)-x*(1-x)*f(x)).max())
# slope orthonormality of Qbfs under (2/pi) int_0^1 S_m' S_n' /sqrt(1-u^2) du  -- Gauss-Chebyshev
N=200; k=np.arange(1,N+1); uu=np.cos((2*k-1)*np.pi/(2*N))  # nodes in (-1,1)
def slope(n,uu):
    # spectral derivative of Qbfs(n,u) as polynomial in u deg 2n+4
    deg=2*n+4; xs=C.chebpts1(deg+1); co=C.chebfit(xs,p.Qbfs(n,xs),deg); return C.chebval(uu,C.chebder(co))
S=np.array([slope(n,uu) for n in range(12)])
G=(S@S.T)/N   # (1/pi)*int_{-1}^{1} f/sqrt(1-u^2) du = mean over nodes ; over [0,1] with 2/pi normal. same by evenness
print('Qbfs slope gram diag',np.diag(G)[:6],'offdiag max',abs(G-np.diag(np.diag(G))).max())
# Qcon: definition; orthogonality of Qcon? P_n^(0,4)(2u^2-1) u^4
print('Qcon def', max(abs(p.Qcon(n,u)-u**4*__import__('scipy').special.eval_jacobi(n,0,4,2*u*u-1)).max() for n in range(10)))
