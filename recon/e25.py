import numpy as np
from prysm.fttools import czt
rng=np.random.default_rng(0); a=rng.standard_normal((8,8))+0j
bad=0; tot=0
for s in np.linspace(-3,3,61):
    for M in [8,9,16]:
        tot+=1
        try: czt.czt2(a,2,M,(float(s),0.0))
        except Exception as e: bad+=1; last=(s,M,repr(e)[:60])
print(bad,tot,last)
