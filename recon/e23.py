import numpy as np, warnings
from prysm.x.raytracing import surfaces as s
warnings.simplefilter('ignore')
h=1e-20
r=np.linspace(0.5,9,6); t=np.linspace(0.3,5.5,6)
cs=lambda f,r: np.imag(f(r+1j*h))/h
c,k=1/40.,-0.6
print('sphere_sag_der', abs(s.sphere_sag_der(c,r)-cs(lambda r:s.sphere_sag(c,r*r),r)).max())
print('conic_sag_der', abs(s.conic_sag_der(c,k,r)-cs(lambda r:s.conic_sag(c,k,r*r),r)).max())
print('d(1/phi)', abs(s.der_direction_cosine_spheroid(c,k,r)-cs(lambda r:1/s.phi_spheroid(c,k,r*r),r)).max(), s.der_direction_cosine_spheroid(c,k,r)[:2], cs(lambda r:1/s.phi_spheroid(c,k,r*r),r)[:2])
for dx,dy in [(15.,0),(0,22.)]:
    dr,dt=s.off_axis_conic_der(c,k,r,t,dx,dy)
    ndr=cs(lambda r:s.off_axis_conic_sag(c,k,r,t,dx,dy),r); ndt=cs(lambda tt:s.off_axis_conic_sag(c,k,r,tt,dx,dy),t)
    print('oac der',dx,dy,abs(dr-ndr).max(),abs(dt-ndt).max())
    dr,dt=s.off_axis_conic_sigma_der(c,k,r,t,dx,dy)
    ndr=cs(lambda r:1/s.off_axis_conic_sigma(c,k,r,t,dx,dy),r); ndt=cs(lambda tt:1/s.off_axis_conic_sigma(c,k,r,tt,dx,dy),t)
    print('sigma der',dx,dy,abs(dr-ndr).max(),abs(dt-ndt).max(), dr[:2],ndr[:2])
from prysm.polynomials import hopkins
print(hopkins(-2,2,1,np.array(.5),np.array(.3),np.array(.7)), np.sin(2*.3)*.25*.7)
