import numpy as np, warnings
from prysm.x.dm import DM
from prysm.coordinates import make_xy_grid
from prysm.geometry import gaussian
warnings.simplefilter('ignore')
rng=np.random.default_rng(0)
for N,kw in [(64,{}),(64,dict(shift=(1.5,-0.7))),(64,dict(Nout=80)),(64,dict(Nout=48)),(64,dict(rot=(0,10,0))),(64,dict(upsample=0.5,Nout=32)),(65,{}),(64,dict(Nout=(48,48),shift=(2,1),rot=(5,0,3)))]:
    x,y=make_xy_grid(N,dx=1.); ifn=np.asarray(gaussian(3.,x,y))
    kw={'Nout':N,**kw}
    try:
        dm=DM(ifn,Nact=6,sep=8,**kw)
        a=rng.standard_normal(dm.actuators.shape); dm.update(a); r=dm.render(wfe=True)
        g=rng.standard_normal(r.shape); back=dm.render_backprop(g.copy(),wfe=True)
        # linear? render(a) linear in a: check adjoint <g, R a> = <R^T g, a>
        lhs=(g*r).sum(); rhs=(back*a).sum()
        # peak placement: single poke in center actuator
        print(N,kw,'adjoint rel err',abs(lhs-rhs)/abs(lhs), r.shape)
    except Exception as e: print(N,kw,'EXC',repr(e)[:100])
