import numpy as np, warnings
from prysm.x.raytracing.surfaces import Surface, Q2d_and_der, surface_normal_from_cylindrical_derivatives
from prysm.x.raytracing import spencer_and_murty as sm
from prysm.coordinates import cart_to_polar, make_rotation_matrix
warnings.simplefilter('ignore')
rng=np.random.default_rng(0)
def unit(v): return v/np.linalg.norm(v,axis=-1,keepdims=True)
N=6
P=np.zeros((N,3)); P[:,0]=[0,1,2,-3,0.5,0]; P[:,1]=[0,0,1,2,-2.5,4]; P[:,2]=-10
S=unit(np.stack([np.array([0,0.02,-0.05,0.1,0,0.0]),np.array([0,0,0.03,-0.02,0.08,0]),np.ones(N)],axis=1))
nglass=lambda w:1.5
for name,surf in [('conic refr',Surface.conic(1/50,-0.5,'refr',P=[0,0,0],n=nglass)),('conic refl',Surface.conic(-1/80,-1,'refl',P=[0,0,0])),
                  ('plane refr tilted',Surface.plane('refr',P=[0,0.3,1.],n=nglass,R=(0,5,3))),('oac refl',Surface.off_axis_conic(-1/100,-1,'refl',P=[0,0,0],dy=20.)),
                  ('conic refr tilted dec',Surface.conic(1/40,0.3,'refr',P=[0.5,-0.2,2],n=nglass,R=(2,-4,6)))]:
    Ph,Sh=sm.raytrace([surf],P,S,0.55)
    P1,S1=Ph[1],Sh[1]
    # on-surface: local coords
    Pl,Sl=sm.transform_to_local_coords(P1,surf.P,S1,surf.R)
    z,nrm=surf.sag_normal(Pl[:,0],Pl[:,1])
    S0l=sm.transform_to_local_coords(P,surf.P,S,surf.R)[1]
    # independent normal by finite difference of sag
    h=1e-6; zx=(surf.sag_normal(Pl[:,0]+h,Pl[:,1])[0]-surf.sag_normal(Pl[:,0]-h,Pl[:,1])[0])/(2*h); zy=(surf.sag_normal(Pl[:,0],Pl[:,1]+h)[0]-surf.sag_normal(Pl[:,0],Pl[:,1]-h)[0])/(2*h)
    nfd=unit(np.stack([-zx,-zy,np.ones_like(zx)],1))
    ci=np.einsum('ij,ij->i',S0l,nfd); co=np.einsum('ij,ij->i',Sl,nfd)
    si=np.sqrt(1-ci**2); so=np.sqrt(np.clip(1-co**2,0,None))
    if 'refr' in name: law=abs(1.0*si-1.5*so)
    else: law=np.linalg.norm(Sl-(S0l-2*ci[:,None]*nfd),axis=1)
    copl=abs(np.einsum('ij,ij->i',np.cross(S0l,nfd),Sl))
    print(name,'onsurf',np.nanmax(abs(Pl[:,2]-z)),'|S|-1',np.abs(np.linalg.norm(S1,axis=1)-1), 'law',law,'nan rays',np.isnan(P1).any(axis=1).sum())
# rigid motion
R=make_rotation_matrix((10,-20,33)); Pt=np.array([1.,2,3]); X=rng.standard_normal((5,3)); Sx=unit(rng.standard_normal((5,3)))
Xl,Sl=sm.transform_to_local_coords(X,Pt,Sx,R); Xg,Sg=sm.transform_to_global_coords(Xl,Pt,Sl,R.T)
print('rigid rt',abs(Xg-X).max(),abs(Sg-Sx).max(),'dist pres',abs(np.linalg.norm(Xl[0]-Xl[1])-np.linalg.norm(X[0]-X[1])),'R orth',abs(R@R.T-np.eye(3)).max(),np.linalg.det(R))
# polarization
from prysm.x import polarization as pol
def isunit(J): return abs(J.conj().swapaxes(-1,-2)@J-np.eye(2)).max()
print('retarder unitary',max(isunit(pol.linear_retarder(d,t)) for d in np.linspace(0,6,7) for t in np.linspace(-3,3,7)))
th=np.linspace(0,2*np.pi,8).reshape(2,4)
for ret in [np.pi,np.pi/2,1.0]:
    t0=th.copy(); V=pol.vector_vortex_retarder(2,t0,ret); print('vvr ret',ret,'unitary err',isunit(V),'theta mutated',not np.array_equal(t0,th))
Pz=pol.linear_polarizer(0.3); print('pol idem',abs(Pz@Pz-Pz).max())
a=0.7; E=pol.linear_pol_vector(20); Pa=pol.linear_polarizer(np.radians(20)+a); out=Pa@E; print('malus',(abs(out)**2).sum(),np.cos(a)**2)
J=pol.linear_retarder(1.1,0.0); Jr=pol.linear_retarder(1.1,0.4); R_=pol.jones_rotation_matrix(0.4); print('rot conj',abs(Jr-pol.jones_rotation_matrix(-0.4)@J@R_).max())
A=rng.standard_normal((2,2))+1j*rng.standard_normal((2,2)); B=rng.standard_normal((2,2))+1j*rng.standard_normal((2,2))
print('mueller mult',abs(pol.jones_to_mueller(A@B)-pol.jones_to_mueller(A)@pol.jones_to_mueller(B)).max(), abs(pol.jones_to_mueller(A@B,broadcast=False)-pol.jones_to_mueller(A,broadcast=False)@pol.jones_to_mueller(B,broadcast=False)).max())
M=pol.jones_to_mueller(Jr); print('unitary->orth',abs(M@M.T-np.eye(4)).max(),M[0,0])
c=pol.pauli_coefficients(A); rec=sum(ci*pol.pauli_spin_matrix(i) for i,ci in enumerate(c)); print('pauli',abs(rec-A).max())
Ab=rng.standard_normal((3,4,2,2))+1j*rng.standard_normal((3,4,2,2)); Mb=pol.jones_to_mueller(Ab); print('batch mueller',max(abs(Mb[i,j]-pol.jones_to_mueller(Ab[i,j])).max() for i in range(3) for j in range(4)))
from prysm import propagation as Pg
Jf=rng.standard_normal((6,6,2,2))+1j*rng.standard_normal((6,6,2,2))
o=pol.jones_adapter(Pg.focus)(Jf,2); print('jones focus',max(abs(o[...,i,j]-Pg.focus(Jf[...,i,j],2)).max() for i in range(2) for j in range(2)))
o=pol.jones_adapter(Pg.focus_fixed_sampling)(Jf,0.1,100.,0.5,3.,8); print('jones ffs',max(abs(o[...,i,j]-Pg.focus_fixed_sampling(Jf[...,i,j],0.1,100.,0.5,3.,8)).max() for i in range(2) for j in range(2)))
