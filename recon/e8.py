import numpy as np
from prysm import propagation as P
from prysm.propagation import Wavefront
from prysm.fttools import mdft
from prysm import polynomials as poly
rng=np.random.default_rng(3)
cn=lambda s:rng.standard_normal(s)+1j*rng.standard_normal(s)
ip=lambda a,b: np.vdot(a,b)   # <a,b> = sum conj(a) b
wvl=0.5; efl=100.; dx=0.1
# mdft adjoints
for (shp,Q,out,sh) in [((6,6),2,(6,6),(0,0)),((5,7),(1.3,2.1),(8,4),(0.5,-1)),((4,4),1,(9,9),(2,0))]:
    x=cn(shp); y=cn(out)
    Ax=mdft.dft2(x,Q,out,sh); Ahy=mdft.dft2_backprop(y,Q,shp,sh)
    print('dft2 adj', abs(ip(y,Ax)-ip(Ahy,x)))
    Ax=mdft.idft2(x,Q,out,sh); Ahy=mdft.idft2_backprop(y,Q,shp,sh)
    print('idft2 adj', abs(ip(y,Ax)-ip(Ahy,x)))
# focus_fixed_sampling adjoint
for shp,out in [((8,8),(12,12)),((8,8),(12,10)),((6,9),(10,10))]:
    x=cn(shp); y=cn(out)
    for sh in [(0,0),(3.,-2.)]:
        Ax=P.focus_fixed_sampling(x,dx,efl,wvl,4.0,out,shift=sh)
        Ahy=P.focus_fixed_sampling_backprop(y,dx,efl,wvl,4.0,shp,shift=sh)
        print('ffs adj',shp,out,sh, abs(ip(y,Ax)-ip(Ahy,x)))
        Ax=P.unfocus_fixed_sampling(y,4.0,efl,wvl,dx,shp,shift=sh)
        Ahy=P.unfocus_fixed_sampling_backprop(x,4.0,efl,wvl,dx,out,shift=sh)
        print('ufs adj',shp,out,sh, abs(ip(x,Ax)-ip(Ahy,y)))
# Wavefront wrappers
w=Wavefront(cn((8,8)),wvl,dx); y=Wavefront(cn((12,12)),wvl,4.0,'psf')
Ax=w.focus_fixed_sampling(efl,4.0,12).data; Ahy=y.focus_fixed_sampling_backprop(efl,dx,8).data
print('W ffs adj', abs(ip(y.data,Ax)-ip(Ahy,w.data)))
# to_fpm_and_back adjoint
for mshape,cm in [((8,8),False),((12,12),False),((12,12),True),((12,10),True)]:
    x=cn((8,8)); y=cn((8,8)); m=rng.random(mshape)+(1j*rng.random(mshape) if cm else 0)
    Ax=P.to_fpm_and_back(x,dx,efl,wvl,m,4.0)
    try:
        Ahy=P.to_fpm_and_back_backprop(y,dx,wvl,efl,m,4.0)
        print('tfb adj',mshape,cm, abs(ip(y,Ax)-ip(Ahy,x)), abs(ip(y,Ax)+ip(Ahy,x)))
    except Exception as e: print('tfb adj',mshape,cm,'EXC',repr(e))
# babinet adjoint
for mshape,cm,cl in [((8,8),False,False),((12,12),False,False),((12,12),True,True)]:
    x=cn((8,8)); y=cn((8,8)); m=rng.random(mshape)+(1j*rng.random(mshape) if cm else 0); L=rng.random((8,8))+(1j*rng.random((8,8)) if cl else 0)
    Ax=Wavefront(x,wvl,dx).babinet(efl,L,m,4.0).data
    try:
        Ahy=Wavefront(y,wvl,dx).babinet_backprop(efl,L,m,4.0).data
        print('bab adj',mshape,cm,cl, abs(ip(y,Ax)-ip(Ahy,x)))
    except Exception as e: print('bab adj',mshape,cm,cl,'EXC',repr(e))
# intensity backprop: cost = sum(Ibar * |E|^2); dcost/dE (Wirtinger conj) -> directional derivative
E=cn((5,5)); Ibar=rng.standard_normal((5,5)); d=cn((5,5)); h=1e-6
w=Wavefront(E,wvl,dx); G=w.intensity_backprop(Ibar).data
f=lambda E:(Ibar*abs(E)**2).sum()
num=(f(E+h*d)-f(E-h*d))/(2*h); ana=np.real(np.vdot(G,d))
print('intensity dir-deriv', num, ana)
# from_amp_and_phase_backprop_phase
amp=rng.random((5,5)); ph=rng.standard_normal((5,5))*50; gbar=cn((5,5)); dph=rng.standard_normal((5,5))
w=Wavefront.from_amp_and_phase(amp,ph,wvl,dx)
g=w.from_amp_and_phase_backprop_phase(Wavefront(gbar,wvl,dx))
f=lambda ph: np.real(np.vdot(gbar, Wavefront.from_amp_and_phase(amp,ph,wvl,dx).data))
num=(f(ph+h*dph)-f(ph-h*dph))/(2*h); print('phase backprop', num, (g*dph).sum())
# sum_of_2d_modes_backprop
modes=rng.standard_normal((4,5,6)); wts=rng.standard_normal(4); db=rng.standard_normal((5,6))
print('modes adj', abs((db*poly.sum_of_2d_modes(modes,wts)).sum() - (poly.sum_of_2d_modes_backprop(modes,db)*wts).sum()))
