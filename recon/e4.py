import numpy as np, collections, warnings
from prysm.fttools import pad2d, crop_center, fftrange, forward_ft_unit
from prysm.coordinates import make_xy_grid
from prysm.psf import centroid
from prysm._richdata import RichData
bad=collections.Counter(); tot=collections.Counter()
for i in range(1,10):
  for o in range(i,14):
    a=np.zeros((i,i)); a[i//2,i//2]=1
    p=pad2d(a,out_shape=(o,o))
    ok = p[o//2,o//2]==1
    tot[('pad',i%2,o%2)]+=1; bad[('pad',i%2,o%2)]+= (not ok)
    for mode in ['edge','reflect']:
        try:
            b=np.arange(i*i,dtype=float).reshape(i,i)+1
            p2=np.pad(b,1) if False else pad2d(b,out_shape=(o,o),mode=mode)
            ok2 = p2[o//2,o//2]==b[i//2,i//2] and p2.shape==(o,o)
        except Exception as e:
            ok2='err'
        tot[('pad-'+mode,i%2,o%2)]+=1; bad[('pad-'+mode,i%2,o%2)]+= (ok2 is not True)
    b=np.zeros((o,o)); b[o//2,o//2]=1
    c=crop_center(b,(i,i))
    okc = c[i//2,i//2]==1
    tot[('crop',o%2,i%2)]+=1; bad[('crop',o%2,i%2)]+= (not okc)
    rt = np.array_equal(crop_center(pad2d(np.arange(i*i).reshape(i,i)+1.,out_shape=(o,o)),(i,i)), np.arange(i*i).reshape(i,i)+1.)
    tot[('rt',i%2,o%2)]+=1; bad[('rt',i%2,o%2)]+= (not rt)
for k in sorted(tot): print(k,bad[k],'/',tot[k])
# pad2d with value, Q
a=np.ones((3,3)); print(pad2d(a,Q=2,value=5))
# centroid
for n in range(3,9):
    for k in [-1,0,1]:
        a=np.zeros((n,n)); a[n//2+k, n//2]=1
        print('centroid n',n,'k',k, centroid(a,dx=2.0))
# grids
for n in range(1,8):
    x,y=make_xy_grid(n,dx=0.5); f=forward_ft_unit(0.5,n)
    print(n, x[n//2,n//2], y[n//2,n//2], f[n//2], fftrange(n)[n//2])
# slices
for n in [4,5]:
  d=np.arange(n*n,dtype=float).reshape(n,n); r=RichData(d,1.,1.); s=r.slices()
  print(n, s.x[1], d[n//2], s.y[1], d[:,n//2])
