import numpy as np
from prysm import polynomials as p
from numpy.polynomial import chebyshev as C
# gradient inner product on disk with weight 1/sqrt(1-u^2): int_0^1 int_0^2pi (.) w(u) u du dt
# Use Gauss-Chebyshev in u on (-1,1) exploiting parity: integrand f(u) u / sqrt(1-u^2), for u in [0,1]: = 1/2 int_{-1}^{1} f(|u|)|u| /sqrt(1-u^2) -> not polynomial because |u|.
# instead substitute u = sin(phi)? use Gauss-Jacobi: x=u^2: int_0^1 g(x) (1-x)^(-1/2) dx/2 -> Gauss-Jacobi(alpha=-1/2,beta=0) on [-1,1] mapped
from scipy.special import roots_jacobi
xj,wj=roots_jacobi(80,-0.5,0.0)   # weight (1-x)^-1/2 on [-1,1]
X=(xj+1)/2; WX=wj/ (2**0.5)  # int_0^1 g(X)(1-X)^-1/2 dX : x=2X-1, (1-x)=2(1-X), dx=2dX -> int g (2(1-X))^-1/2 2 dX = sqrt2 int g (1-X)^-1/2 dX => int_0^1 g(1-X)^-1/2 dX = sum wj g /sqrt2
U=np.sqrt(X)
nt=64; tt=np.arange(nt)*2*np.pi/nt
UU,TT=np.meshgrid(U,tt)
def grad(n,m):
    # numerical: d/du via complex step not avail (cos fine). use spectral in u: Q2d is poly in u of degree 2n+|m| (m!=0) 
    h=1e-6
    f=lambda u,t:p.Q2d(n,m,u,t)
    du=(f(UU+h,TT)-f(UU-h,TT))/(2*h); dt=(f(UU,TT+h)-f(UU,TT-h))/(2*h)
    return du, dt/UU
nms=[(0,1),(1,1),(2,1),(3,1),(4,1),(0,2),(1,2),(2,2),(0,3),(1,3),(0,-2),(1,-1),(2,-3),(0,0),(1,0),(2,0)]
Gs=[grad(n,m) for n,m in nms]
# measure: int g(u,t) w u du dt with u du = dX/2
W=np.outer(np.ones(nt)*(2*np.pi/nt), WX/2)
G=np.array([[ ((a[0]*b[0]+a[1]*b[1])*W).sum() for b in Gs] for a in Gs])
np.set_printoptions(linewidth=250,precision=4,suppress=True)
print(np.diag(G))
print(np.diag(G)/np.pi)
off=G-np.diag(np.diag(G)); print('offdiag max',abs(off).max())
