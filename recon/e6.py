import numpy as np, collections, warnings
from prysm import propagation as P
from prysm.propagation import Wavefront
from prysm.coordinates import make_xy_grid
def peak_xy(wf):
    I=wf.intensity; d=I.data; iy,ix=np.unravel_index(np.argmax(d),d.shape)
    return float(I.x[iy,ix]), float(I.y[iy,ix])
wvl=0.5; efl=100.
for shp in [(16,16),(17,17),(16,24),(21,14)]:
  for (kx,ky) in [(1,0),(0,1.5),(-0.5,1)]:
    dx=0.1; Dy,Dx=shp[0]*dx, shp[1]*dx
    x,y=make_xy_grid(shp,dx=dx)
    D=1.6  # tilt defined over fixed physical width 1.6 mm
    opd=(kx*x/D+ky*y/D)*wvl*1e3
    wf=Wavefront.from_amp_and_phase(np.ones(shp),opd,wvl,dx)
    ex,ey=kx*wvl*efl/D, ky*wvl*efl/D
    odx=wvl*efl/D/8
    res=[]
    for meth in ['mdft','czt']:
        f=wf.focus_fixed_sampling(efl,odx,(96,96),method=meth); res.append(peak_xy(f))
        f=wf.focus_fixed_sampling(efl,odx,(96,96),shift=(3*odx,-5*odx),method=meth); res.append(peak_xy(f))
    print(shp,(kx,ky),'expect',(ex,ey),'odx',odx, [ (round(a/odx,3),round(b/odx,3)) for a,b in res], 'expect samples',(ex/odx,ey/odx))
