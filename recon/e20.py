import numpy as np, warnings
from prysm.coordinates import make_xy_grid, cart_to_polar
from prysm.segmented import CompositeHexagonalAperture, CompositeKeystoneAperture
from prysm import geometry as g
from prysm.polynomials import zernike_nm_seq
warnings.simplefilter('ignore')
for n in [256,257]:
  for ang in [90,0]:
    for excl in [(),(0,),(0,3,7)]:
        x,y=make_xy_grid(n,diameter=8.); dx=x[0,1]-x[0,0]
        rings=2; sd=1.3; gap=0.02
        c=CompositeHexagonalAperture(x,y,rings,sd,gap,segment_angle=ang,exclude=excl)
        cover=np.zeros(x.shape,int)
        for w,m in zip(c.windows,c.local_masks): cover[w]+=m
        nseg=len(c.segment_ids); exp=1+3*rings*(rings+1)-len(excl)
        areas=[m.sum()*dx*dx for m in c.local_masks]; A=np.sqrt(3)/2*sd**2; per=6*sd/np.sqrt(3)
        print(n,ang,excl,'nseg',nseg,exp,'overlap',(cover>1).sum(),'union==amp',np.array_equal(cover>0,c.amp),'area err/ (per*dx)',max(abs(a-A) for a in areas)/(per*dx), 'lens',len(c.windows),len(c.local_masks),len(c.all_centers))
x,y=make_xy_grid(256,diameter=8.)
c=CompositeHexagonalAperture(x,y,2,1.3,0.02,exclude=(0,))
c.prepare_opd_bases(zernike_nm_seq,[(0,0),(1,1),(1,-1)])
co=np.zeros((len(c.segment_ids),3)); co[4,0]=1
opd=c.compose_opd(co); seg=np.zeros(x.shape,bool); seg[c.windows[4]]=c.local_masks[4]
print('piston confined', np.array_equal(opd!=0,seg), np.unique(opd))
c1=np.random.default_rng(0).standard_normal(co.shape); c2=np.random.default_rng(1).standard_normal(co.shape)
print('linear',abs(c.compose_opd(2*c1+3*c2)-(2*c.compose_opd(c1)+3*c.compose_opd(c2))).max())
k=CompositeKeystoneAperture(x,y,center_circle_diameter=2.,rings=2,ring_radius=1.2,segments_per_ring=[6,12],radial_gap=0.03)
cover=np.zeros(x.shape,int); cover[k.center_window]+=k.center_mask
for w,m in zip(k.segment_windows,k.segment_masks): cover[w]+=m
print('keystone nseg',len(k.segment_ids),'overlap',(cover>1).sum(),'amp subset of union',bool((k.amp&~(cover>0)).sum()==0),'amp px',k.amp.sum(),'union px',(cover>0).sum())
# geometry
for n in [64,65]:
    x,y=make_xy_grid(n,diameter=2.); r,t=cart_to_polar(x,y)
    m=g.circle(0.5,r); print(n,'circle',m.sum(), (np.hypot(x,y)<=0.5).sum(), 'sym', np.array_equal(m[1:,1:],m[1:,1:][::-1,::-1]) if n%2==0 else np.array_equal(m,m[::-1,::-1]))
    for sides,rot in [(6,0),(6,30),(5,10),(8,22.5)]:
        m=g.regular_polygon(sides,0.7,x,y,rotation=rot)
        A=0.5*sides*0.7**2*np.sin(2*np.pi/sides); dx=x[0,1]-x[0,0]
        # analytic: inside iff for all edges... use apothem in rotated frame: angle measured from +y clockwise
        def inside(sign):
            ang=np.arctan2(x,y)-sign*np.radians(rot)  # angle from +y toward +x
            a=np.mod(ang,2*np.pi/sides)-np.pi/sides
            return np.hypot(x,y)*np.cos(a)<=0.7*np.cos(np.pi/sides)+0
        band=abs(np.hypot(x,y)*np.cos(np.mod(np.arctan2(x,y)-np.radians(rot),2*np.pi/sides)-np.pi/sides)-0.7*np.cos(np.pi/sides))<1e-9
        print('  poly',sides,rot,'area err/(perim*dx)',abs(m.sum()*dx*dx-A)/(2*sides*0.7*np.sin(np.pi/sides)*dx),'match+',(m!=inside(1)).sum(),'match-',(m!=inside(-1)).sum())
    sp=g.spider(4,0.1,x,y); print('  spider4 px',(~sp).sum(), 'analytic', (((abs(y)<0.05)&(x>0))|((abs(x)<0.05)&(y>0))|((abs(y)<0.05)&(x<0))|((abs(x)<0.05)&(y<0))).sum())
    re=g.rectangle(0.5,x,y,height=0.25,angle=30); print('  rect30 px',re.sum(),'area',re.sum()*(x[0,1]-x[0,0])**2, 4*0.5*0.25)
